package mcp

// C04 for every kind of call the session API can make.  A raw peer accepts each request and never answers
// it; the caller's context is cancelled while the call is in flight.  Whatever the call is - a standard
// method with parameters, one without (nil params), a custom method with parameters or with a typed-nil
// params value - it returns the context's error at once (no virtual time passes, no panic), a
// notifications/cancelled naming exactly that request reaches the peer, and the session serves a later call.
// Client sessions (11 kinds of call) and server sessions (4 kinds).

import (
	"bufio"
	"context"
	"encoding/json"
	"errors"
	"fmt"
	"io"
	"testing"
	"testing/synctest"
	"time"

	"github.com/modelcontextprotocol/go-sdk/internal/verifx"
)

type c04APICall struct {
	name string
	side string // "client": a ClientSession calls; "server": a ServerSession calls
	do   func(ctx context.Context, cs *ClientSession, ss *ServerSession) error
}

func c04APICalls() []c04APICall {
	cl := func(name string, f func(ctx context.Context, cs *ClientSession) error) c04APICall {
		return c04APICall{name: name, side: "client", do: func(ctx context.Context, cs *ClientSession, _ *ServerSession) error { return f(ctx, cs) }}
	}
	sv := func(name string, f func(ctx context.Context, ss *ServerSession) error) c04APICall {
		return c04APICall{name: name, side: "server", do: func(ctx context.Context, _ *ClientSession, ss *ServerSession) error { return f(ctx, ss) }}
	}
	return []c04APICall{
		cl("CallTool", func(ctx context.Context, cs *ClientSession) error {
			_, err := cs.CallTool(ctx, &CallToolParams{Name: "t", Arguments: map[string]any{}})
			return err
		}),
		cl("Ping(nil)", func(ctx context.Context, cs *ClientSession) error { return cs.Ping(ctx, nil) }),
		cl("Ping(params)", func(ctx context.Context, cs *ClientSession) error { return cs.Ping(ctx, &PingParams{}) }),
		cl("ListTools(nil)", func(ctx context.Context, cs *ClientSession) error { _, err := cs.ListTools(ctx, nil); return err }),
		cl("ListTools(params)", func(ctx context.Context, cs *ClientSession) error {
			_, err := cs.ListTools(ctx, &ListToolsParams{})
			return err
		}),
		cl("ListPrompts(nil)", func(ctx context.Context, cs *ClientSession) error { _, err := cs.ListPrompts(ctx, nil); return err }),
		cl("ListResources(nil)", func(ctx context.Context, cs *ClientSession) error { _, err := cs.ListResources(ctx, nil); return err }),
		cl("GetPrompt", func(ctx context.Context, cs *ClientSession) error {
			_, err := cs.GetPrompt(ctx, &GetPromptParams{Name: "p"})
			return err
		}),
		cl("ReadResource", func(ctx context.Context, cs *ClientSession) error {
			_, err := cs.ReadResource(ctx, &ReadResourceParams{URI: "file:///r"})
			return err
		}),
		cl("custom method(params)", func(ctx context.Context, cs *ClientSession) error {
			_, err := CallCustomMethod[*c06EchoParams, *c06EchoResult](ctx, cs, "acme/echo", &c06EchoParams{Text: "x"})
			return err
		}),
		cl("custom method(typed nil params)", func(ctx context.Context, cs *ClientSession) error {
			_, err := CallCustomMethod[*c06EchoParams, *c06EchoResult](ctx, cs, "acme/echo", nil)
			return err
		}),
		sv("ServerSession.Ping(nil)", func(ctx context.Context, ss *ServerSession) error { return ss.Ping(ctx, nil) }),
		sv("ServerSession.ListRoots(nil)", func(ctx context.Context, ss *ServerSession) error { _, err := ss.ListRoots(ctx, nil); return err }),
		sv("ServerSession.CreateMessage", func(ctx context.Context, ss *ServerSession) error {
			_, err := ss.CreateMessage(ctx, &CreateMessageParams{MaxTokens: 5, Messages: []*SamplingMessage{{Role: "user", Content: &TextContent{Text: "hi"}}}})
			return err
		}),
		sv("ServerSession.Elicit", func(ctx context.Context, ss *ServerSession) error {
			_, err := ss.Elicit(ctx, &ElicitParams{Message: "name?"})
			return err
		}),
	}
}

func c04APICase(call c04APICall, how string) (obs, sig, msg string) {
	desc := fmt.Sprintf("%s, context ended by %s", call.name, how)
	fail := func(s, format string, a ...any) (string, string, string) {
		return "", "c04 api-call " + s, fmt.Sprintf(format, a...) + " [" + desc + "]"
	}
	ctx := context.Background()
	ct, st := NewInMemoryTransports()
	var peer io.ReadWriteCloser
	type wire struct {
		ID     json.RawMessage `json:"id"`
		Method string          `json:"method"`
		Params struct {
			RequestID json.RawMessage `json:"requestId"`
		} `json:"params"`
	}
	var requests, cancels []wire
	handshake := make(chan struct{})
	answerPings := false
	scan := func() {
		sc := bufio.NewScanner(peer)
		sc.Buffer(make([]byte, 1<<20), 1<<20)
		for sc.Scan() {
			var m wire
			json.Unmarshal(sc.Bytes(), &m)
			switch {
			case m.Method == "initialize":
				io.WriteString(peer, `{"jsonrpc":"2.0","id":`+string(m.ID)+`,"result":{"protocolVersion":"2025-06-18","capabilities":{"tools":{},"prompts":{},"resources":{}},"serverInfo":{"name":"peer","version":"1"}}}`+"\n")
			case m.Method == "notifications/initialized":
				close(handshake)
			case m.Method == "notifications/cancelled":
				cancels = append(cancels, m)
			case m.Method == "ping" && answerPings:
				io.WriteString(peer, `{"jsonrpc":"2.0","id":`+string(m.ID)+`,"result":{}}`+"\n")
			case m.Method != "" && len(m.ID) > 0:
				requests = append(requests, m) // accepted, never answered
			}
		}
	}
	var cs *ClientSession
	var ss *ServerSession
	var closeAll func()
	switch call.side {
	case "client":
		peer = st.rwc
		go scan()
		c := NewClient(&Implementation{Name: "cli", Version: "1"}, &ClientOptions{Logger: quietLogger})
		if err := AddSendingCustomMethod[*c06EchoParams, *c06EchoResult](c, "acme/echo"); err != nil {
			return fail("setup", "%v", err)
		}
		var err error
		if cs, err = c.Connect(ctx, ct, &ClientSessionOptions{ProtocolVersion: "2025-06-18"}); err != nil {
			return fail("setup", "%v", err)
		}
		<-handshake
		closeAll = func() { peer.Close(); cs.Close() }
	case "server":
		peer = ct.rwc
		go scan()
		s := NewServer(&Implementation{Name: "srv", Version: "1"}, &ServerOptions{Logger: quietLogger})
		var err error
		if ss, err = s.Connect(ctx, st, nil); err != nil {
			return fail("setup", "%v", err)
		}
		go func() {
			io.WriteString(peer, `{"jsonrpc":"2.0","id":"i","method":"initialize","params":{"protocolVersion":"2025-06-18","capabilities":{"roots":{},"sampling":{},"elicitation":{}},"clientInfo":{"name":"peer","version":"1"}}}`+"\n")
			io.WriteString(peer, `{"jsonrpc":"2.0","method":"notifications/initialized","params":{}}`+"\n")
		}()
		closeAll = func() { peer.Close(); ss.Close() }
	}
	synctest.Wait()
	defer closeAll()
	requests = nil
	cctx, cancel := context.WithCancel(ctx)
	var cause error
	switch how {
	case "cancel-cause":
		var cc context.CancelCauseFunc
		cctx, cc = context.WithCancelCause(ctx)
		cause = errors.New("verif: the user pressed stop")
		cancel = func() { cc(cause) }
	}
	defer cancel()
	done := false
	var callErr error
	var panicked any
	go func() {
		defer func() {
			if r := recover(); r != nil {
				panicked = r
				done = true
			}
		}()
		callErr = call.do(cctx, cs, ss)
		done = true
	}()
	synctest.Wait()
	if done {
		return fail("setup", "the call returned before it was cancelled: %v (panic: %v)", callErr, panicked)
	}
	if len(requests) != 1 {
		return fail("setup", "the peer saw %d requests, want 1", len(requests))
	}
	t0 := time.Now()
	cancel()
	synctest.Wait()
	switch {
	case panicked != nil:
		return fail("cancelled-call-panics", "cancelling the call made it panic: %v", panicked)
	case !done:
		return fail("call-still-blocked", "the call has not returned although its context ended")
	case time.Since(t0) != 0:
		return fail("return-needs-time", "the call returned %v after the cancellation", time.Since(t0))
	case !errors.Is(callErr, context.Canceled):
		return fail("wrong-error", "the call returned %v, want the context's error", callErr)
	}
	time.Sleep(6 * time.Second) // (the notice is best effort with a 5 s bound)
	synctest.Wait()
	if len(cancels) != 1 || string(cancels[0].Params.RequestID) != string(requests[0].ID) {
		return fail("cancel-notice", "the peer received %d cancellation notices %v for request %s (%s)", len(cancels), cancels, requests[0].ID, requests[0].Method)
	}
	// the session serves a later call
	answerPings = true
	var err error
	if cs != nil {
		err = cs.Ping(ctx, nil)
	} else {
		err = ss.Ping(ctx, nil)
	}
	if err != nil {
		return fail("session-unusable", "a ping after the cancelled call failed: %v", err)
	}
	return call.side + " call cancelled cleanly", "", ""
}

func TestVerifC04API(t *testing.T) {
	env := verifx.LoadEnv("C04")
	res := env.NewResult()
	cases := env.NewCases(res, "api/every-kind-of-call-cancelled")
	for _, call := range c04APICalls() {
		for _, how := range []string{"cancel", "cancel-cause"} {
			idx, mine := cases.Next()
			if !mine {
				continue
			}
			var obs, sig, msg string
			func() {
				defer func() {
					if r := recover(); r != nil && sig == "" {
						sig, msg = "c04 api-call panic-or-leak", fmt.Sprintf("%v [%s %s]", r, call.name, how)
					}
				}()
				synctest.Test(t, func(t *testing.T) { obs, sig, msg = c04APICase(call, how) })
			}()
			if sig != "" {
				cases.Violate(idx, sig, msg, 3)
				continue
			}
			cases.Record(idx, obs, 3, func() string { return call.name + " " + how })
		}
	}
	env.Finish(res)
}
