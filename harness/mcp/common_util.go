package mcp

import (
	"io"
	"log/slog"
)

var quietLogger = slog.New(slog.NewTextHandler(io.Discard, nil))
