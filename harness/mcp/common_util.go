package mcp

import (
	"io"
	"log/slog"
	"net/http"
	"strconv"
)

var quietLogger = slog.New(slog.NewTextHandler(io.Discard, nil))

// framedWriter gives a recording http.ResponseWriter the framing rules of net/http's server: once
// the header is fixed, a declared Content-Length is binding - a write that would exceed it fails
// with http.ErrContentLength and delivers nothing, and a handler that returns having written less
// leaves the client with a broken body (broken reports either).
type framedWriter struct {
	http.ResponseWriter
	fixed    bool
	declared int64 // -1: none
	written  int64
	refused  bool
}

func newFramedWriter(w http.ResponseWriter) *framedWriter {
	return &framedWriter{ResponseWriter: w, declared: -1}
}

func (w *framedWriter) fix() {
	if w.fixed {
		return
	}
	w.fixed = true
	if cl := w.Header().Get("Content-Length"); cl != "" {
		if n, err := strconv.ParseInt(cl, 10, 64); err == nil && n >= 0 {
			w.declared = n
		}
	}
}

func (w *framedWriter) WriteHeader(status int) {
	if status >= 200 {
		w.fix()
	}
	w.ResponseWriter.WriteHeader(status)
}

func (w *framedWriter) Write(p []byte) (int, error) {
	w.fix()
	if w.declared >= 0 && w.written+int64(len(p)) > w.declared {
		w.refused = true
		return 0, http.ErrContentLength
	}
	w.written += int64(len(p))
	return w.ResponseWriter.Write(p)
}

func (w *framedWriter) Flush() {
	w.fix()
	if f, ok := w.ResponseWriter.(http.Flusher); ok {
		f.Flush()
	}
}

// broken: the client cannot read this response body to a clean end.
func (w *framedWriter) broken() bool {
	return w.refused || (w.declared >= 0 && w.written != w.declared)
}
