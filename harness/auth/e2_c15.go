package auth

// C15: the OAuth client flow trusts only matching, safe metadata and a matching state/iss.
// AuthorizationCodeHandler.Authorize against a scripted http.Client and AuthorizationCodeFetcher:
// every outgoing request is a choice point over the answers for that step (cost-1 faults,
// all paths with <=2 non-default answers), crossed with the full product of client
// configuration x authorization result x token endpoint answer.  A monitor checks every URL
// requested and under which conditions a new token source gets installed.

import (
	"context"
	"encoding/json"
	"fmt"
	"io"
	"net/http"
	"net/url"
	"strings"
	"testing"

	"github.com/modelcontextprotocol/go-sdk/internal/util"
	"github.com/modelcontextprotocol/go-sdk/internal/verifx"
	"github.com/modelcontextprotocol/go-sdk/oauthex"
	"golang.org/x/oauth2"
)

const c15MCP = "https://mcp.example/mcp"

type c15Script struct {
	ch *verifx.Chooser
	// observations
	urls          []string
	badURL        string
	tokenRequests []string // "doc=<variant> client_id=<id>" per token request
	registered    bool
	issParam      bool // authorization_response_iss_parameter_supported in the served (ok) metadata
	stateSent     string
	stateOK       bool
	issCase       string
	fetcherCalled int
	asHostsAsked  []string          // hosts of authorization-server metadata requests
	rejectable    map[string]string // AS host -> variant of a metadata document it served that must be rejected
	asmFirstOnly  bool              // the AS serves its metadata at the first well-known location asked only; the others are 404
	prmNamesAS    string            // the authorization server the (valid) resource metadata names; "" = https://as.example
	tokenAlwaysOK bool              // the token endpoint always answers with a token (no choice)
	mcp           string            // URL of the MCP server whose 401 starts the flow (default c15MCP)
}

const c15RedirectHost = "redirect-target.example"

type c15RT struct{ s *c15Script }

func c15JSON(status int, body string) *http.Response {
	return &http.Response{StatusCode: status, Status: fmt.Sprint(status), Header: http.Header{"Content-Type": {"application/json"}},
		Body: io.NopCloser(strings.NewReader(body)), Proto: "HTTP/1.1", ProtoMajor: 1, ProtoMinor: 1}
}

func (rt c15RT) RoundTrip(req *http.Request) (*http.Response, error) {
	s := rt.s
	u := req.URL
	s.urls = append(s.urls, u.String())
	if !(u.Scheme == "https" || util.IsLoopback(u.Host)) && s.badURL == "" {
		s.badURL = u.String()
	}
	// one more answer at every step: a redirect to the same path on a plain-http, non-loopback host
	// (which serves the regular document, should the client follow)
	redirected := u.Host == c15RedirectHost
	redirect := func(code int) *http.Response {
		r := c15JSON(code, "")
		r.Header.Set("Location", "http://"+c15RedirectHost+u.RequestURI())
		return r
	}
	fault := func(name string, n int) int {
		if redirected {
			return 0
		}
		return s.ch.Fault(name, n)
	}
	switch {
	case strings.Contains(u.Path, "oauth-protected-resource") || u.Path == "/prm-from-challenge":
		resource := c15MCP
		if s.mcp != "" {
			resource = s.mcp
		}
		if u.Path == "/.well-known/oauth-protected-resource" {
			resource = strings.TrimSuffix(resource, "/mcp")
		}
		doc := func(res string, servers ...string) string {
			b, _ := json.Marshal(map[string]any{"resource": res, "authorization_servers": servers, "scopes_supported": []string{"s"}})
			return string(b)
		}
		docWith := func(res, field, value string) string {
			b, _ := json.Marshal(map[string]any{"resource": res, "authorization_servers": []string{"https://as-of-scripted-prm.example"}, "scopes_supported": []string{"s"}, field: value})
			return string(b)
		}
		if u.Host == "foreign.example" {
			// another origin's own, self-consistent document: it describes that origin, not the MCP server
			// the client is talking to, whatever its location looks like
			return c15JSON(200, doc("https://foreign.example"+strings.TrimPrefix(u.Path, "/.well-known/oauth-protected-resource"), "https://as-of-foreign-prm.example")), nil
		}
		switch fault("prm-answer", 15) {
		// script schemes in the spellings browsers still run: leading blanks or control characters,
		// tabs or line breaks inside the scheme
		case 12:
			return c15JSON(200, docWith(resource, "resource_policy_uri", " javascript:alert(1)")), nil
		case 13:
			return c15JSON(200, docWith(resource, "resource_tos_uri", "java\tscript:alert(1)")), nil
		case 14:
			return c15JSON(200, docWith(resource, "resource_documentation", "\x01data:text/html,<script>1</script>")), nil
		case 9:
			return c15JSON(200, docWith(resource, "resource_policy_uri", "javascript:alert(1)")), nil
		case 10:
			return c15JSON(200, docWith(resource, "jwks_uri", "data:text/html,<script>1</script>")), nil
		case 11:
			return c15JSON(200, docWith(resource, "resource_documentation", "vbscript:msgbox(1)")), nil
		case 0:
			as := "https://as.example"
			if s.prmNamesAS != "" {
				as = s.prmNamesAS
			}
			return c15JSON(200, doc(resource, as)), nil
		case 1:
			return c15JSON(200, doc("https://evil.example/mcp", "https://as-of-mismatching-prm.example")), nil
		case 2:
			return c15JSON(200, doc(resource, "http://as-plain-http.example")), nil
		case 3:
			return c15JSON(200, doc(resource, "javascript:alert(1)")), nil
		case 4:
			return c15JSON(200, doc(resource)), nil
		case 5:
			return c15JSON(404, `{}`), nil
		case 6:
			return c15JSON(500, `{}`), nil
		case 8:
			return redirect(302), nil
		default:
			r := c15JSON(200, doc(resource, "https://as-of-html-prm.example"))
			r.Header.Set("Content-Type", "text/html")
			return r, nil
		}
	case strings.Contains(u.Path, "oauth-authorization-server") || strings.Contains(u.Path, "openid-configuration"):
		issuer := u.Scheme + "://" + u.Host
		if redirected {
			issuer = "https://as.example"
		}
		nthOfHost := 0
		for _, h := range s.asHostsAsked {
			if h == u.Host {
				nthOfHost++
			}
		}
		s.asHostsAsked = append(s.asHostsAsked, u.Host)
		if s.asmFirstOnly && nthOfHost > 0 && !redirected {
			return c15JSON(404, `{}`), nil // like most servers, this one has a single metadata location
		}
		doc := func(variant string, over map[string]any) string {
			m := map[string]any{
				"issuer": issuer, "authorization_endpoint": issuer + "/authorize", "token_endpoint": issuer + "/token?doc=" + variant,
				"registration_endpoint": issuer + "/register", "code_challenge_methods_supported": []string{"S256"},
				"response_types_supported": []string{"code"}, "client_id_metadata_document_supported": true,
				"authorization_response_iss_parameter_supported": s.issParam,
			}
			for k, v := range over {
				if v == nil {
					delete(m, k)
				} else {
					m[k] = v
				}
			}
			b, _ := json.Marshal(m)
			return string(b)
		}
		answer := fault("asm-answer", 15)
		if (answer >= 1 && answer <= 6) || answer >= 10 {
			if s.rejectable == nil {
				s.rejectable = map[string]string{}
			}
			s.rejectable[u.Host] = map[int]string{1: "issuer-mismatch", 2: "no-pkce", 3: "token-http", 4: "registration-data-scheme", 5: "tos-javascript", 6: "authz-javascript-loopback",
				10: "issuer-other-port", 11: "issuer-with-query", 12: "issuer-with-userinfo", 13: "tos-obfuscated-javascript", 14: "policy-obfuscated-vbscript"}[answer]
		}
		switch answer {
		case 0:
			return c15JSON(200, doc("ok", nil)), nil
		case 1:
			return c15JSON(200, doc("issuer-mismatch", map[string]any{"issuer": "https://other-issuer.example"})), nil
		case 2:
			return c15JSON(200, doc("no-pkce", map[string]any{"code_challenge_methods_supported": nil})), nil
		case 3:
			return c15JSON(200, doc("token-http", map[string]any{"token_endpoint": "http://as-plain-http.example/token?doc=token-http"})), nil
		case 4:
			return c15JSON(200, doc("registration-data-scheme", map[string]any{"registration_endpoint": "data:text/html,<script>1</script>"})), nil
		case 5:
			return c15JSON(200, doc("tos-javascript", map[string]any{"op_tos_uri": "javascript:alert(1)"})), nil
		case 6:
			return c15JSON(200, doc("authz-javascript-loopback", map[string]any{"authorization_endpoint": "javascript://127.0.0.1/%0Aalert(1)"})), nil
		case 7:
			return c15JSON(404, `{}`), nil
		case 10:
			// an issuer identifier is compared as a whole: another port, a query, user information name another issuer
			return c15JSON(200, doc("issuer-other-port", map[string]any{"issuer": issuer + ":8443"})), nil
		case 11:
			return c15JSON(200, doc("issuer-with-query", map[string]any{"issuer": issuer + "?tenant=other"})), nil
		case 12:
			return c15JSON(200, doc("issuer-with-userinfo", map[string]any{"issuer": strings.Replace(issuer, "://", "://tenant@", 1)})), nil
		case 13:
			return c15JSON(200, doc("tos-obfuscated-javascript", map[string]any{"op_tos_uri": "\tjavascript:alert(1)"})), nil
		case 14:
			return c15JSON(200, doc("policy-obfuscated-vbscript", map[string]any{"op_policy_uri": "vb\nscript:msgbox(1)"})), nil
		case 9:
			return redirect(302), nil
		default:
			return c15JSON(500, `{}`), nil
		}
	case u.Path == "/register":
		s.registered = true
		switch fault("registration-answer", 4) {
		case 0:
			return c15JSON(201, `{"client_id":"dcr-client","redirect_uris":["http://localhost:1/cb"]}`), nil
		case 1:
			return c15JSON(400, `{"error":"invalid_client_metadata"}`), nil
		case 3:
			return redirect(307), nil
		default:
			return c15JSON(500, `{}`), nil
		}
	case u.Path == "/token":
		body, _ := io.ReadAll(req.Body)
		form, _ := url.ParseQuery(string(body))
		cid := form.Get("client_id")
		if user, _, ok := req.BasicAuth(); ok && cid == "" {
			cid, _ = url.QueryUnescape(user)
		}
		s.tokenRequests = append(s.tokenRequests, fmt.Sprintf("host=%s doc=%s client_id=%s", u.Host, u.Query().Get("doc"), cid))
		ta := 0
		if !s.tokenAlwaysOK && !redirected {
			ta = s.ch.Free("token-answer", 4)
		}
		switch ta {
		case 0:
			return c15JSON(200, `{"access_token":"fresh","token_type":"bearer","expires_in":3600}`), nil
		case 1:
			return c15JSON(400, `{"error":"invalid_grant"}`), nil
		case 3:
			return redirect(307), nil
		default:
			return c15JSON(500, `{}`), nil
		}
	}
	return c15JSON(404, `{}`), nil
}

type c15Static struct{}

func (c15Static) Token() (*oauth2.Token, error) { return &oauth2.Token{AccessToken: "initial"}, nil }

func c15Run(ch *verifx.Chooser) (obs, bad, sig string, steps int) {
	fail := func(s, format string, a ...any) {
		if bad == "" {
			sig, bad = "c15 "+s, fmt.Sprintf(format, a...)
		}
	}
	s := &c15Script{ch: ch}
	s.issParam = ch.Free("as-advertises-iss-parameter", 2) == 1
	s.asmFirstOnly = ch.Free("as-metadata-at-one-location-only", 2) == 1
	cfg := &AuthorizationCodeHandlerConfig{
		RedirectURL: "http://localhost:1/cb",
		Client:      &http.Client{Transport: c15RT{s}},
	}
	if ch.Free("client-has-own-redirect-policy", 2) == 1 {
		// the caller's HTTP client comes with a redirect policy of its own (here: a hop limit)
		cfg.Client.CheckRedirect = func(req *http.Request, via []*http.Request) error {
			if len(via) > 3 {
				return http.ErrUseLastResponse
			}
			return nil
		}
	}
	initial := c15Static{}
	cfg.InitialTokenSource = initial
	clientCfg := []string{"cimd", "prereg-matching-issuer", "prereg-other-issuer", "prereg-no-issuer", "dcr", "prereg-other-port"}[ch.Free("client-config", 6)]
	switch clientCfg {
	case "cimd":
		cfg.ClientIDMetadataDocumentConfig = &ClientIDMetadataDocumentConfig{URL: "https://client.example/meta.json"}
	case "prereg-matching-issuer":
		cfg.PreregisteredClient = &oauthex.ClientCredentials{ClientID: "prereg", Issuer: "https://as.example"}
	case "prereg-other-issuer":
		cfg.PreregisteredClient = &oauthex.ClientCredentials{ClientID: "prereg", Issuer: "https://idp.corp.example"}
	case "prereg-other-port":
		// the same host name on another port is another issuer
		cfg.PreregisteredClient = &oauthex.ClientCredentials{ClientID: "prereg", Issuer: "https://as.example:8443"}
	case "prereg-no-issuer":
		cfg.PreregisteredClient = &oauthex.ClientCredentials{ClientID: "prereg"}
	case "dcr":
		cfg.DynamicClientRegistrationConfig = &DynamicClientRegistrationConfig{Metadata: &oauthex.ClientRegistrationMetadata{RedirectURIs: []string{"http://localhost:1/cb"}}}
	}
	issuerUsed := ""
	cfg.AuthorizationCodeFetcher = func(ctx context.Context, args *AuthorizationArgs) (*AuthorizationResult, error) {
		s.fetcherCalled++
		au, err := url.Parse(args.URL)
		if err != nil {
			return nil, err
		}
		if !(au.Scheme == "https" || util.IsLoopback(au.Host)) || au.Scheme == "javascript" || au.Scheme == "data" {
			fail("user-sent-to-unsafe-url", "the user is sent to the authorization URL %q", args.URL)
		}
		issuerUsed = au.Scheme + "://" + au.Host
		s.stateSent = au.Query().Get("state")
		res := &AuthorizationResult{Code: "the-code", State: s.stateSent}
		s.stateOK = true
		switch ch.Free("returned-state", 6) {
		case 1:
			res.State, s.stateOK = s.stateSent+"x", false
		case 2:
			res.State, s.stateOK = s.stateSent[:len(s.stateSent)-1], false
		case 3:
			res.State, s.stateOK = "", false // the callback came without a state parameter
		case 4:
			res.State, s.stateOK = strings.ToUpper(s.stateSent), strings.ToUpper(s.stateSent) == s.stateSent
		case 5:
			res.State, s.stateOK = " "+s.stateSent, false
		}
		s.issCase = []string{"absent", "matching", "other"}[ch.Free("returned-iss", 3)]
		switch s.issCase {
		case "matching":
			res.Iss = issuerUsed
		case "other":
			res.Iss = "https://attacker.example"
		}
		return res, nil
	}
	h, err := NewAuthorizationCodeHandler(cfg)
	if err != nil {
		return "config-rejected", "", "", 0
	}
	mcpURL := c15MCP
	if ch.Fault("mcp-server-origin", 2) == 1 {
		// the MCP server itself sits on a plain-http, non-loopback origin: nothing of the flow may be
		// sent there (or to anything derived from it)
		mcpURL = "http://mcp-plain.example/mcp"
		s.mcp = mcpURL
	}
	req, _ := http.NewRequest("POST", mcpURL, nil)
	resp := &http.Response{StatusCode: 401, Header: http.Header{}, Body: io.NopCloser(strings.NewReader(""))}
	switch ch.Fault("challenge", 7) {
	case 5:
		resp.Header.Set("WWW-Authenticate", `Bearer resource_metadata="https://foreign.example/.well-known/oauth-protected-resource"`)
	case 6:
		resp.Header.Set("WWW-Authenticate", `Bearer resource_metadata="https://foreign.example/.well-known/oauth-protected-resource/mcp"`)
	case 0:
		resp.Header.Set("WWW-Authenticate", `Bearer resource_metadata="https://mcp.example/prm-from-challenge"`)
	case 1:
		// no challenge at all
	case 2:
		resp.Header.Set("WWW-Authenticate", `Bearer resource_metadata="http://metadata-plain-http.example/prm-from-challenge"`)
	case 3:
		resp.Header.Set("WWW-Authenticate", `Bearer resource_metadata="javascript:alert(1)"`)
	case 4:
		resp.Header.Set("WWW-Authenticate", `Bearer resource_metadata="https://mcp.example/prm-from-challenge", scope="a b"`)
	}
	if ch.Fault("response-came-after-redirects", 2) == 1 {
		// the MCP endpoint redirected, and the 401 is the answer of where the chain ended (net/http
		// records that request in the response): what was asked for is still the configured endpoint
		last, _ := http.NewRequest("POST", "https://foreign.example/mcp", nil)
		resp.Request = last
	} else {
		resp.Request = req
	}
	var authErr error
	func() {
		defer func() {
			if r := recover(); r != nil {
				if d, ok := r.(verifx.Divergence); ok {
					panic(d)
				}
				fail("panic", "Authorize panicked: %v", r)
			}
		}()
		authErr = h.Authorize(context.Background(), req, resp)
	}()
	steps = len(s.urls) + s.fetcherCalled
	ts, _ := h.TokenSource(context.Background())
	installed := ts != oauth2.TokenSource(initial)

	// ---- monitor
	if s.badURL != "" {
		fail("request-to-non-https-non-loopback-url", "a request went to %q", s.badURL)
	}
	if authErr != nil && installed {
		fail("token-installed-despite-error", "Authorize returned %v but a new token source was installed", authErr)
	}
	if authErr == nil && !installed {
		fail("success-without-token", "Authorize returned nil but no token source was installed")
	}
	issOK := (s.issParam && s.issCase == "matching") || (!s.issParam && s.issCase == "absent")
	if len(s.tokenRequests) > 0 {
		// a code was exchanged: only legitimate after every check passed
		last := s.tokenRequests[len(s.tokenRequests)-1]
		if !s.stateOK {
			fail("code-exchanged-despite-state-mismatch", "the authorization code was exchanged although the returned state differs from the generated one (%s)", last)
		}
		if !issOK && strings.Contains(last, "doc=ok") {
			fail("code-exchanged-despite-iss-violation", "the code was exchanged although the RFC 9207 issuer check must fail (AS advertises iss parameter: %v, returned iss: %s)", s.issParam, s.issCase)
		}
		for _, bad := range []string{"doc=issuer-mismatch", "doc=no-pkce", "doc=token-http", "doc=registration-data-scheme", "doc=tos-javascript", "doc=authz-javascript-loopback", "doc=issuer-other-port", "doc=issuer-with-query", "doc=issuer-with-userinfo", "doc=tos-obfuscated-javascript", "doc=policy-obfuscated-vbscript"} {
			if strings.Contains(last, bad) {
				fail("rejected-metadata-used "+bad, "the code was sent to the token endpoint of metadata that must be rejected (%s)", last)
			}
		}
		for host, variant := range s.rejectable {
			// the server published metadata that must be rejected: that is the end of the flow with this
			// server, not a reason to guess its endpoints as if it had published nothing
			if strings.Contains(last, "host="+host+" doc= ") {
				fail("rejected-metadata-forgotten "+variant, "%s served authorization-server metadata that must be rejected (%s), yet the code was exchanged at its default endpoints as if no metadata existed (%s)", host, variant, last)
			}
		}
		for _, host := range []string{"as-of-mismatching-prm.example", "as-plain-http.example", "as-of-html-prm.example", "as-of-scripted-prm.example", "as-of-foreign-prm.example"} {
			if strings.Contains(last, "host="+host) {
				fail("rejected-resource-metadata-used "+host, "the code was sent to %s, an authorization server named only by protected-resource metadata that must be rejected", host)
			}
		}
		if (clientCfg == "prereg-other-issuer" || (clientCfg == "prereg-other-port" && !strings.Contains(last, ":8443"))) && strings.Contains(last, "client_id=prereg") {
			fail("preregistered-credentials-used-with-other-issuer", "credentials registered with another issuer (%s) were presented to %s", clientCfg, last)
		}
	}
	for _, host := range s.asHostsAsked {
		if host == "as-of-mismatching-prm.example" || host == "as-of-html-prm.example" || host == "as-of-scripted-prm.example" || host == "as-of-foreign-prm.example" {
			fail("rejected-resource-metadata-used "+host, "authorization-server metadata was requested from %s, named only by resource metadata that must be rejected", host)
		}
	}
	if installed {
		if !s.stateOK || len(s.tokenRequests) == 0 {
			fail("token-installed-without-valid-exchange", "a new token source was installed (state ok: %v, token requests: %v)", s.stateOK, s.tokenRequests)
		}
	}
	cls := "error"
	if authErr == nil {
		cls = "authorized"
	}
	return fmt.Sprintf("%s config=%s requests=%d token-requests=%d", cls, clientCfg, len(s.urls), len(s.tokenRequests)), bad, sig, steps
}

// c15TwoRounds: one handler, two authorization rounds.  Round 1 runs against https://as.example and
// succeeds; then the resource answers 401 again and its (valid) metadata names either the same or a
// different, equally valid authorization server.  Credentials pre-registered for as.example must
// never be presented to the other server, a failed second round leaves the first round's token in
// place, and a successful one went through a fresh state check.
func c15TwoRounds(ch *verifx.Chooser) (obs, bad, sig string, steps int) {
	fail := func(s, format string, a ...any) {
		if bad == "" {
			sig, bad = "c15 two-rounds "+s, fmt.Sprintf(format, a...)
		}
	}
	s := &c15Script{ch: ch, tokenAlwaysOK: true}
	cfg := &AuthorizationCodeHandlerConfig{RedirectURL: "http://localhost:1/cb", Client: &http.Client{Transport: c15RT{s}}}
	initial := c15Static{}
	cfg.InitialTokenSource = initial
	clientCfg := []string{"prereg-for-as.example", "prereg-no-issuer", "cimd", "dcr"}[ch.Free("client-config", 4)]
	switch clientCfg {
	case "prereg-for-as.example":
		cfg.PreregisteredClient = &oauthex.ClientCredentials{ClientID: "prereg", Issuer: "https://as.example"}
	case "prereg-no-issuer":
		cfg.PreregisteredClient = &oauthex.ClientCredentials{ClientID: "prereg"}
	case "cimd":
		cfg.ClientIDMetadataDocumentConfig = &ClientIDMetadataDocumentConfig{URL: "https://client.example/meta.json"}
	case "dcr":
		cfg.DynamicClientRegistrationConfig = &DynamicClientRegistrationConfig{Metadata: &oauthex.ClientRegistrationMetadata{RedirectURIs: []string{"http://localhost:1/cb"}}}
	}
	secondAS := []string{"https://as.example", "https://as-b.example"}[ch.Free("second-round-authorization-server", 2)]
	secondState := ch.Free("second-round-returned-state", 2) // 0: echoed, 1: altered
	round := 1
	var issuersUsed []string
	cfg.AuthorizationCodeFetcher = func(ctx context.Context, args *AuthorizationArgs) (*AuthorizationResult, error) {
		s.fetcherCalled++
		au, err := url.Parse(args.URL)
		if err != nil {
			return nil, err
		}
		issuersUsed = append(issuersUsed, au.Scheme+"://"+au.Host)
		st := au.Query().Get("state")
		if round == 2 && secondState == 1 {
			st += "x"
		}
		return &AuthorizationResult{Code: fmt.Sprintf("code-%d", round), State: st}, nil
	}
	h, err := NewAuthorizationCodeHandler(cfg)
	if err != nil {
		return "config-rejected", "", "", 0
	}
	authorize := func() error {
		req, _ := http.NewRequest("POST", c15MCP, nil)
		resp := &http.Response{StatusCode: 401, Header: http.Header{}, Body: io.NopCloser(strings.NewReader(""))}
		resp.Header.Set("WWW-Authenticate", `Bearer resource_metadata="https://mcp.example/prm-from-challenge"`)
		return h.Authorize(context.Background(), req, resp)
	}
	if err := authorize(); err != nil {
		fail("first-round-failed", "round 1 against https://as.example with valid metadata failed: %v", err)
		return "", bad, sig, len(s.urls)
	}
	ts1, _ := h.TokenSource(context.Background())
	if ts1 == oauth2.TokenSource(initial) {
		fail("success-without-token", "round 1 returned nil but installed no token source")
	}
	tokenRequests1 := len(s.tokenRequests)
	round = 2
	s.prmNamesAS = secondAS
	err2 := authorize()
	steps = len(s.urls) + s.fetcherCalled
	ts2, _ := h.TokenSource(context.Background())
	if s.badURL != "" {
		fail("request-to-non-https-non-loopback-url", "a request went to %q", s.badURL)
	}
	for _, tr := range s.tokenRequests[tokenRequests1:] {
		if clientCfg == "prereg-for-as.example" && secondAS != "https://as.example" && strings.Contains(tr, "client_id=prereg") {
			fail("preregistered-credentials-used-with-other-issuer", "round 2: credentials pre-registered for https://as.example were presented to %s", tr)
		}
		if secondState == 1 {
			fail("code-exchanged-despite-state-mismatch", "round 2: the code was exchanged although the returned state differs (%s)", tr)
		}
	}
	if clientCfg == "prereg-for-as.example" && secondAS != "https://as.example" {
		for _, iss := range issuersUsed[1:] {
			if iss == secondAS {
				fail("preregistered-client-sent-to-other-issuer", "round 2: the user was sent to %s with the client pre-registered for https://as.example", iss)
			}
		}
		if err2 == nil {
			fail("preregistered-issuer-binding-ignored", "round 2 against %s succeeded with a client pre-registered for https://as.example", secondAS)
		}
	}
	if err2 != nil && ts2 != ts1 {
		fail("token-installed-despite-error", "round 2 returned %v but the installed token source changed", err2)
	}
	if err2 == nil && secondState == 1 {
		fail("success-despite-state-mismatch", "round 2 succeeded although the returned state was altered")
	}
	cls := "round2-error"
	if err2 == nil {
		cls = "round2-authorized"
	}
	return fmt.Sprintf("%s config=%s second-as=%s", cls, clientCfg, secondAS), bad, sig, steps
}

func TestVerifC15(t *testing.T) {
	env := verifx.LoadEnv("C15")
	env.Run([]*verifx.Scenario{{
		Name: "authorize-flow", Budget: env.Pick(2, 3),
		Exec: func(prefix []verifx.Point) *verifx.Outcome {
			ch := &verifx.Chooser{Prefix: prefix}
			obs, bad, sig, steps := c15Run(ch)
			return &verifx.Outcome{Trace: ch.Trace, Steps: steps, Obs: obs, Bad: bad, Sig: sig}
		},
	}, {
		Name: "two-rounds-on-one-handler", Budget: 0,
		Exec: func(prefix []verifx.Point) *verifx.Outcome {
			ch := &verifx.Chooser{Prefix: prefix}
			obs, bad, sig, steps := c15TwoRounds(ch)
			return &verifx.Outcome{Trace: ch.Trace, Steps: steps, Obs: obs, Bad: bad, Sig: sig}
		},
	}})
}
