package auth

// C14: the bearer middleware admits a request iff token, scopes and expiry all check out.
// Full product of header shapes x verifier outcomes x scope sets x expirations x options,
// each run through the real middleware under a bubble's fixed clock and compared with a
// reference predicate written from the property statement.

import (
	"context"
	"errors"
	"fmt"
	"io"
	"net/http"
	"net/http/httptest"
	"slices"
	"strings"
	"testing"
	"testing/synctest"
	"time"

	"github.com/modelcontextprotocol/go-sdk/internal/verifx"
)

type c14Header struct {
	name  string
	set   bool
	value string
	valid int    // 1 valid, 0 invalid, -1 either (the statement does not decide)
	token string // the credential a valid parse must hand to the verifier
}

func c14Headers() []c14Header {
	return []c14Header{
		{name: "absent", set: false, valid: 0},
		{name: "empty", set: true, value: "", valid: 0},
		{name: "scheme-only", set: true, value: "Bearer", valid: 0},
		{name: "scheme-blank", set: true, value: "Bearer ", valid: 0},
		{name: "basic", set: true, value: "Basic dG9r", valid: 0},
		{name: "no-space", set: true, value: "Bearertok", valid: 0},
		{name: "three-tokens", set: true, value: "Bearer tok extra", valid: 0},
		{name: "token-first", set: true, value: "tok Bearer", valid: 0},
		{name: "prefix-scheme", set: true, value: "XBearer tok", valid: 0},
		{name: "canonical", set: true, value: "Bearer tok", valid: 1, token: "tok"},
		{name: "lower", set: true, value: "bearer tok", valid: 1, token: "tok"},
		{name: "upper", set: true, value: "BEARER tok", valid: 1, token: "tok"},
		{name: "mixed", set: true, value: "bEaReR tok", valid: 1, token: "tok"},
		{name: "two-blanks", set: true, value: "Bearer  tok", valid: 1, token: "tok"},
		{name: "surrounding-blanks", set: true, value: " Bearer tok ", valid: 1, token: "tok"},
		{name: "b64ish-token", set: true, value: "Bearer a.b-c_d~e+f/g==", valid: 1, token: "a.b-c_d~e+f/g=="},
		{name: "tab", set: true, value: "Bearer\ttok", valid: -1, token: "tok"},
	}
}

var errC14Other = errors.New("verif: backend unavailable")

func TestVerifC14(t *testing.T) {
	env := verifx.LoadEnv("C14")
	res := env.NewResult()
	cases := env.NewCases(res, "full-product")
	synctest.Test(t, func(t *testing.T) {
		now := time.Now()
		headers := c14Headers()
		verifierOutcomes := []string{"ok", "invalid", "oauth", "other", "nilinfo", "invalid+info", "oauth+info", "other+info", "invalid-empty-message", "other-empty-message"} // -empty-message: the error's Error() is the empty string; +info: the error comes with a (to be ignored) non-nil TokenInfo
		// (scope lists are sets: repeated entries change nothing)
		required := [][]string{nil, {"a"}, {"a", "b"}, {"a", "a"}}
		granted := [][]string{nil, {"a"}, {"b"}, {"a", "b"}, {"b", "c", "a"}, {"a", "a"}, {"b", "b", "c"}}
		skews := []time.Duration{0, time.Nanosecond, 30 * time.Second}
		type expCase struct {
			name string
			at   func(skew time.Duration) time.Time
		}
		exps := []expCase{
			{"zero", func(time.Duration) time.Time { return time.Time{} }},
			{"now-skew-1ns", func(s time.Duration) time.Time { return now.Add(-s - time.Nanosecond) }},
			{"now-skew", func(s time.Duration) time.Time { return now.Add(-s) }},
			{"now-1ns", func(time.Duration) time.Time { return now.Add(-time.Nanosecond) }},
			{"now", func(time.Duration) time.Time { return now }},
			{"now+1h", func(time.Duration) time.Time { return now.Add(time.Hour) }},
			{"long-ago", func(time.Duration) time.Time { return now.Add(-24 * time.Hour) }},
			{"never-expires-9999", func(time.Duration) time.Time { return time.Date(9999, 12, 31, 23, 59, 59, 0, time.UTC) }},
			{"year-1", func(time.Duration) time.Time { return time.Date(1, 1, 1, 0, 0, 1, 0, time.UTC) }},
		}
		for _, h := range headers {
			for _, vo := range verifierOutcomes {
				for _, req := range required {
					for _, gr := range granted {
						for _, ex := range exps {
							for _, skew := range skews {
								for _, allowMissing := range []bool{false, true} {
									for _, optsNil := range []bool{false, true} {
										for _, url := range []string{"", "https://rs.example/.well-known/oauth-protected-resource"} {
											if optsNil && (len(req) > 0 || skew != 0 || allowMissing || url != "") {
												continue // nil options carry no configuration
											}
											idx, mine := cases.Next()
											if !mine {
												continue
											}
											c14One(cases, idx, now, h, vo, req, gr, ex.name, ex.at(skew), skew, allowMissing, optsNil, url)
										}
									}
								}
							}
						}
					}
				}
			}
		}
	})
	// ---- the same behind an outer middleware with a verifier of its own (valid credentials only: the
	// outer one turns the others away)
	stacked := env.NewCases(res, "stacked-middlewares")
	synctest.Test(t, func(t *testing.T) {
		c14Stacked = true
		defer func() { c14Stacked = false }()
		now := time.Now()
		var valid []c14Header
		for _, h := range c14Headers() {
			if h.valid == 1 && len(valid) < 2 {
				valid = append(valid, h)
			}
		}
		for _, h := range valid {
			for _, vo := range []string{"ok", "invalid", "oauth", "other", "nilinfo", "invalid+info", "other+info", "invalid-empty-message"} {
				for _, req := range [][]string{nil, {"a"}, {"a", "b"}} {
					for _, gr := range [][]string{nil, {"a"}, {"b", "c", "a"}} {
						for _, ex := range []struct {
							name string
							at   time.Time
						}{{"zero", time.Time{}}, {"now-1h", now.Add(-time.Hour)}, {"now+1h", now.Add(time.Hour)}} {
							for _, allowMissing := range []bool{false, true} {
								idx, mine := stacked.Next()
								if !mine {
									continue
								}
								c14One(stacked, idx, now, h, vo, req, gr, ex.name, ex.at, 0, allowMissing, false, "https://rs.example/.well-known/oauth-protected-resource")
							}
						}
					}
				}
			}
		}
	})
	// ---- sequences of different requests through one middleware: every decision depends on its own
	// request only, and the configuration handed to RequireBearerToken is never altered
	seq := env.NewCases(res, "request-sequences")
	synctest.Test(t, func(t *testing.T) {
		now := time.Now()
		requiredSets := [][]string{{"a", "b"}, {"b", "a"}, {"a", "b", "c"}}
		grantedSets := [][]string{nil, {"a"}, {"b"}, {"c"}, {"a", "b"}, {"b", "c"}, {"c", "b", "a"}}
		for _, req := range requiredSets {
			var rec func(cur []int)
			rec = func(cur []int) {
				if len(cur) > 0 {
					if idx, mine := seq.Next(); mine {
						c14Sequence(seq, idx, now, req, grantedSets, cur)
					}
				}
				if len(cur) == 3 {
					return
				}
				for g := range grantedSets {
					rec(append(append([]int{}, cur...), g))
				}
			}
			rec(nil)
		}
	})
	// ---- a middleware that lives long: every decision is made against the clock at the time of its
	// request, not at the time the middleware (or the handler it wraps) was built.  For every age of
	// the middleware x expiration relative to the request x skew, and for two requests through one
	// wrapped handler with the clock advancing in between.
	aged := env.NewCases(res, "clock-advances")
	ages := []time.Duration{0, time.Nanosecond, 29 * time.Second, 30 * time.Second, time.Hour, 24 * 365 * time.Hour}
	for _, age := range ages {
		for _, skew := range []time.Duration{0, 30 * time.Second} {
			for _, rel := range []time.Duration{-time.Hour, -time.Nanosecond, 0, time.Nanosecond, time.Hour} {
				for _, wrapEarly := range []bool{false, true} {
					idx, mine := aged.Next()
					if !mine {
						continue
					}
					synctest.Test(t, func(t *testing.T) {
						desc := fmt.Sprintf("middleware age=%v skew=%v expiration=request time%+v-skew handler wrapped at construction=%v", age, skew, rel, wrapEarly)
						var exp time.Time
						verifier := func(ctx context.Context, token string, r *http.Request) (*TokenInfo, error) {
							return &TokenInfo{Expiration: exp, UserID: c14UserID}, nil
						}
						ran := 0
						inner := http.HandlerFunc(func(w http.ResponseWriter, r *http.Request) { ran++ })
						mw := RequireBearerToken(verifier, &RequireBearerTokenOptions{ClockSkew: skew})
						var wrapped http.Handler
						if wrapEarly {
							wrapped = mw(inner)
						}
						for step := 0; step < 2; step++ {
							time.Sleep(age)
							if wrapped == nil {
								wrapped = mw(inner)
							}
							now := time.Now()
							exp = now.Add(-skew).Add(rel) // rel >= 0: unexpired within the skew
							r := httptest.NewRequest("GET", "http://rs.example/mcp", nil)
							r.Header.Set("Authorization", "Bearer tok")
							w := httptest.NewRecorder()
							before := ran
							wrapped.ServeHTTP(w, r)
							admit := rel >= 0
							switch {
							case admit && ran != before+1:
								aged.Violate(idx, "c14 clock valid-request-rejected", fmt.Sprintf("request #%d: the token expires at request time%+v+skew, yet it was rejected with %d [%s]", step+1, rel, w.Code, desc), 2)
								return
							case !admit && ran != before:
								aged.Violate(idx, "c14 clock invalid-request-admitted: expired", fmt.Sprintf("request #%d: the token expired %v before the request (beyond the skew), yet the handler ran [%s]", step+1, -rel, desc), 2)
								return
							case !admit && w.Code != 401:
								aged.Violate(idx, fmt.Sprintf("c14 clock wrong-status-%d", w.Code), fmt.Sprintf("request #%d: expired token answered with %d [%s]", step+1, w.Code, desc), 2)
								return
							}
						}
						aged.Record(idx, fmt.Sprintf("admit=%v", rel >= 0), 2, func() string { return desc })
					})
				}
			}
		}
	}
	// ---- how scopes are spelled: names that are prefixes, suffixes or substrings of one another, that
	// differ in case only, granted entries that hold several names in one string.  Holding a scope is
	// holding exactly that string.
	// ---- request shapes: the decision is about the credential; nothing else about a request (method, CORS
	// preflight headers, upgrade requests, paths, tokens offered elsewhere than in Authorization) exempts it
	shapes := env.NewCases(res, "request-shapes")
	synctest.Test(t, func(t *testing.T) {
		defer func() { c14Shape = nil }()
		now := time.Now()
		for _, sh := range c14Shapes() {
			for _, h := range c14Headers() {
				for _, vo := range []string{"ok", "invalid", "oauth", "other", "nilinfo"} {
					for _, rg := range [][2][]string{{nil, nil}, {{"a"}, {"a"}}, {{"a"}, {"b"}}} {
						for _, ex := range []struct {
							name string
							at   time.Time
						}{{"now+1h", now.Add(time.Hour)}, {"long-ago", now.Add(-24 * time.Hour)}, {"zero", time.Time{}}} {
							for _, optsNil := range []bool{false, true} {
								if optsNil && len(rg[0]) > 0 {
									continue
								}
								idx, mine := shapes.Next()
								if !mine {
									continue
								}
								c14Shape = sh
								c14One(shapes, idx, now, h, vo, rg[0], rg[1], ex.name, ex.at, 0, false, optsNil, "https://rs.example/.well-known/oauth-protected-resource")
								c14Shape = nil
							}
						}
					}
				}
			}
		}
	})
	spell := env.NewCases(res, "scope-name-spellings")
	names := []string{"a", "ab", "a:b", "A", "b", "mcp:tools", "mcp:tools:read", "mcp:tool", "read", "readonly", "thread", "s1", "s10", "s"}
	grantOnly := []string{"", "a b", "mcp:tools mcp:tools:read", " a", "a ", "a,b"}
	var grantSets [][]string
	for _, n := range append(slices.Clone(names), grantOnly...) {
		grantSets = append(grantSets, []string{n})
	}
	for i := range names {
		for j := i + 1; j < len(names); j++ {
			grantSets = append(grantSets, []string{names[i], names[j]})
		}
	}
	var reqSets [][]string
	for _, n := range names {
		reqSets = append(reqSets, []string{n})
	}
	reqSets = append(reqSets, []string{"a", "ab"}, []string{"mcp:tools", "mcp:tools:read"}, []string{"read", "readonly"}, []string{"s1", "s10"}, []string{"a", "b"})
	synctest.Test(t, func(t *testing.T) {
		now := time.Now()
		for _, req := range reqSets {
			for g := range grantSets {
				idx, mine := spell.Next()
				if !mine {
					continue
				}
				c14Sequence(spell, idx, now, req, grantSets, []int{g})
			}
		}
	})
	env.Finish(res)
}

func c14Sequence(cases *verifx.Cases, idx int, now time.Time, req []string, grantedSets [][]string, order []int) {
	configured := slices.Clone(req)
	opts := &RequireBearerTokenOptions{Scopes: req, ResourceMetadataURL: "https://rs.example/.well-known/oauth-protected-resource"}
	current := 0
	verifier := func(ctx context.Context, token string, r *http.Request) (*TokenInfo, error) {
		return &TokenInfo{Scopes: slices.Clone(grantedSets[current]), Expiration: now.Add(time.Hour), UserID: c14UserID}, nil
	}
	ran := 0
	mw := RequireBearerToken(verifier, opts)(http.HandlerFunc(func(w http.ResponseWriter, r *http.Request) { ran++ }))
	desc := func() string {
		var gs []string
		for _, g := range order {
			gs = append(gs, fmt.Sprint(grantedSets[g]))
		}
		return fmt.Sprintf("required=%v granted per request=%s", configured, strings.Join(gs, " then "))
	}
	admitted := 0
	for step, g := range order {
		current = g
		r := httptest.NewRequest("GET", "http://rs.example/mcp", nil)
		r.Header.Set("Authorization", "Bearer tok")
		w := httptest.NewRecorder()
		before := ran
		mw.ServeHTTP(w, r)
		admit := true
		for _, s := range configured {
			if !slices.Contains(grantedSets[g], s) {
				admit = false
			}
		}
		switch {
		case admit && ran != before+1:
			cases.Violate(idx, "c14 sequence valid-request-rejected", fmt.Sprintf("request #%d holds every required scope but was rejected with %d [%s]", step+1, w.Code, desc()), len(order))
			return
		case !admit && ran != before:
			cases.Violate(idx, "c14 sequence invalid-request-admitted: missing scope", fmt.Sprintf("request #%d lacks a required scope but the handler ran [%s]", step+1, desc()), len(order))
			return
		case !admit && w.Code != 403:
			cases.Violate(idx, fmt.Sprintf("c14 sequence wrong-status-%d", w.Code), fmt.Sprintf("request #%d lacks a required scope: status %d, want 403 [%s]", step+1, w.Code, desc()), len(order))
			return
		case !admit && !strings.Contains(w.Header().Get("WWW-Authenticate"), fmt.Sprintf("scope=%q", strings.Join(configured, " "))):
			cases.Violate(idx, "c14 sequence challenge-missing-scopes", fmt.Sprintf("request #%d: WWW-Authenticate %q does not list the configured scopes %v [%s]", step+1, w.Header().Get("WWW-Authenticate"), configured, desc()), len(order))
			return
		}
		if admit {
			admitted++
		}
		if !slices.Equal(opts.Scopes, configured) {
			cases.Violate(idx, "c14 sequence configuration-altered", fmt.Sprintf("after request #%d the Scopes slice given to RequireBearerToken reads %v, it was configured as %v [%s]", step+1, opts.Scopes, configured, desc()), len(order))
			return
		}
	}
	cases.Record(idx, fmt.Sprintf("sequence of %d decided independently, %d admitted", len(order), admitted), len(order), desc)
}

// c14Stacked: the middleware under test runs behind another RequireBearerToken with a verifier of
// its own (a site-wide credential check in front of a route-specific one).  The outer one admits every
// syntactically valid credential and leaves a TokenInfo of its own in the request context; what the
// inner one decides, answers and hands to its handler is exactly what it would without the outer one.
var c14Stacked bool

// c14ReqShape: everything about a request other than its Authorization header.  The middleware's decision
// depends on the credential alone: no method, path, query, body or other header makes a request exempt.
type c14ReqShape struct {
	name   string
	method string
	target string
	body   string
	ctype  string
	header [][2]string
}

func (sh *c14ReqShape) build() *http.Request {
	var body io.Reader
	if sh.body != "" {
		body = strings.NewReader(sh.body)
	}
	target := sh.target
	if target == "" {
		target = "http://rs.example/mcp"
	}
	r := httptest.NewRequest(sh.method, target, body)
	if sh.ctype != "" {
		r.Header.Set("Content-Type", sh.ctype)
	}
	for _, kv := range sh.header {
		r.Header.Add(kv[0], kv[1])
	}
	return r
}

var c14Shape *c14ReqShape

func c14Shapes() []*c14ReqShape {
	var out []*c14ReqShape
	for _, m := range []string{"GET", "POST", "DELETE", "HEAD", "OPTIONS", "PUT", "PATCH", "TRACE", "CONNECT"} {
		out = append(out, &c14ReqShape{name: m, method: m})
	}
	cors := [][2]string{{"Origin", "https://app.example"}, {"Access-Control-Request-Method", "POST"}, {"Access-Control-Request-Headers", "authorization, content-type"}}
	out = append(out,
		&c14ReqShape{name: "OPTIONS CORS preflight", method: "OPTIONS", header: cors},
		&c14ReqShape{name: "OPTIONS with Origin only", method: "OPTIONS", header: cors[:1]},
		&c14ReqShape{name: "POST with CORS request headers", method: "POST", header: cors, body: "{}", ctype: "application/json"},
		&c14ReqShape{name: "GET with Origin", method: "GET", header: cors[:1]},
		&c14ReqShape{name: "GET websocket upgrade", method: "GET", header: [][2]string{{"Connection", "Upgrade"}, {"Upgrade", "websocket"}}},
		&c14ReqShape{name: "GET event stream with Last-Event-ID", method: "GET", header: [][2]string{{"Accept", "text/event-stream"}, {"Last-Event-ID", "7"}}},
		&c14ReqShape{name: "GET from loopback proxy headers", method: "GET", header: [][2]string{{"X-Forwarded-For", "127.0.0.1"}, {"X-Real-Ip", "127.0.0.1"}, {"Forwarded", "for=127.0.0.1"}}},
		&c14ReqShape{name: "GET with a token in the query", method: "GET", target: "http://rs.example/mcp?access_token=tok"},
		&c14ReqShape{name: "POST with a token in a form body", method: "POST", body: "access_token=tok", ctype: "application/x-www-form-urlencoded"},
		&c14ReqShape{name: "GET with a token cookie", method: "GET", header: [][2]string{{"Cookie", "access_token=tok; Authorization=Bearer tok"}}},
		&c14ReqShape{name: "GET with Proxy-Authorization", method: "GET", header: [][2]string{{"Proxy-Authorization", "Bearer tok"}}},
		&c14ReqShape{name: "GET well-known path", method: "GET", target: "http://rs.example/.well-known/oauth-protected-resource"},
		&c14ReqShape{name: "GET health path", method: "GET", target: "http://rs.example/healthz"},
		&c14ReqShape{name: "GET on localhost", method: "GET", target: "http://localhost:8080/mcp"},
		&c14ReqShape{name: "POST session request", method: "POST", body: `{"jsonrpc":"2.0","id":1,"method":"ping"}`, ctype: "application/json", header: [][2]string{{"Mcp-Session-Id", "s1"}, {"Mcp-Protocol-Version", "2025-06-18"}}},
		&c14ReqShape{name: "DELETE session", method: "DELETE", header: [][2]string{{"Mcp-Session-Id", "s1"}}},
	)
	return out
}

func c14One(cases *verifx.Cases, idx int, now time.Time, h c14Header, vo string, req, gr []string, exName string, exp time.Time, skew time.Duration, allowMissing, optsNil bool, url string) {
	desc := func() string {
		st := ""
		if c14Stacked {
			st = " behind an outer RequireBearerToken with its own verifier"
		}
		if c14Shape != nil {
			st += " request shape: " + c14Shape.name
		}
		return fmt.Sprintf("header=%s verifier=%s required=%v granted=%v exp=%s skew=%v allowMissing=%v optsNil=%v url=%q%s", h.name, vo, req, gr, exName, skew, allowMissing, optsNil, url, st)
	}
	info := &TokenInfo{Scopes: gr, Expiration: exp, UserID: c14UserID}
	verifierCalls := 0
	var verifierToken string
	verifier := func(ctx context.Context, token string, r *http.Request) (*TokenInfo, error) {
		verifierCalls++
		verifierToken = token
		var withErr *TokenInfo
		if strings.HasSuffix(vo, "+info") {
			withErr = info
		}
		switch strings.TrimSuffix(vo, "+info") {
		case "invalid-empty-message":
			return nil, c14SilentError{ErrInvalidToken}
		case "other-empty-message":
			return nil, c14SilentError{nil}
		case "ok":
			return info, nil
		case "invalid":
			return withErr, fmt.Errorf("signature mismatch: %w", ErrInvalidToken)
		case "oauth":
			return withErr, fmt.Errorf("dpop required: %w", ErrOAuth)
		case "other":
			return withErr, errC14Other
		}
		return nil, nil
	}
	var opts *RequireBearerTokenOptions
	if !optsNil {
		opts = &RequireBearerTokenOptions{ResourceMetadataURL: url, Scopes: req, AllowMissingExpiration: allowMissing, ClockSkew: skew}
	}
	ran := 0
	var seen *TokenInfo
	inner := http.HandlerFunc(func(w http.ResponseWriter, r *http.Request) {
		ran++
		seen = TokenInfoFromContext(r.Context())
		w.WriteHeader(http.StatusTeapot)
	})
	mw := RequireBearerToken(verifier, opts)
	if c14Stacked {
		innerMW := mw
		outer := RequireBearerToken(func(ctx context.Context, token string, r *http.Request) (*TokenInfo, error) {
			return &TokenInfo{Scopes: []string{"a", "b", "c", "outer"}, Expiration: now.Add(240 * time.Hour), UserID: "outer:" + token}, nil
		}, nil)
		mw = func(hd http.Handler) http.Handler { return outer(innerMW(hd)) }
	}
	obs := ""
	// The same request is sent three times through the same middleware, the verifier handing out
	// the same *TokenInfo (a verifier-side cache): the decision is a function of the request, the
	// token facts and the clock only, never of what was decided before.
	once := func(rep int) bool {
		ran, verifierCalls, seen = 0, 0, nil
		r := httptest.NewRequest("GET", "http://rs.example/mcp", nil)
		if c14Shape != nil {
			r = c14Shape.build()
		}
		if h.set {
			r.Header.Set("Authorization", h.value)
		}
		w := httptest.NewRecorder()
		var panicked any
		func() {
			defer func() { panicked = recover() }()
			mw(inner).ServeHTTP(w, r)
		}()
		fail := func(sig, format string, a ...any) {
			if c14Shape != nil {
				sig += " request-shape=" + c14Shape.name
			}
			if rep > 0 {
				sig += " on a repeated request"
				format = fmt.Sprintf("request #%d with the same token: ", rep+1) + format
			}
			cases.Violate(idx, "c14 "+sig, fmt.Sprintf(format, a...)+" ["+desc()+"]", 1)
		}
		if panicked != nil {
			fail("panic", "middleware panicked: %v", panicked)
			return false
		}
		status := w.Code

		// ---- reference predicate, from the statement
		parseOK := h.valid
		verifierOK := vo == "ok"
		scopesOK := true
		for _, s := range req {
			if !slices.Contains(gr, s) {
				scopesOK = false
			}
		}
		var expiryOK bool
		if exp.IsZero() {
			expiryOK = allowMissing
		} else {
			expiryOK = !exp.Add(skew).Before(now) // unexpired within the skew: now <= exp+skew
		}
		if parseOK == -1 {
			// undecided shape: whichever way the middleware parses it, the rest must be consistent
			if verifierCalls > 0 {
				parseOK = 1
			} else {
				parseOK = 0
			}
		}
		admit := parseOK == 1 && verifierOK && scopesOK && expiryOK
		switch {
		case admit:
			if ran != 1 {
				fail("valid-request-rejected", "every check passes but the handler did not run (status %d)", status)
				return false
			}
			if seen != info {
				fail("wrong-token-info", "the handler saw TokenInfo %p, the verifier returned %p", seen, info)
				return false
			}
			if !seen.Expiration.Equal(exp) || !slices.Equal(seen.Scopes, gr) || seen.UserID != c14UserID {
				fail("token-info-altered", "the handler saw TokenInfo %+v, the verifier established expiration %v scopes %v", *seen, exp, gr)
				return false
			}
			if verifierToken != h.token || verifierCalls != 1 {
				fail("wrong-token", "the verifier was called %d times with %q, want once with %q", verifierCalls, verifierToken, h.token)
				return false
			}
			if status != http.StatusTeapot {
				fail("handler-response-replaced", "the handler ran but the status is %d", status)
				return false
			}
			obs = "admitted"
		default:
			if ran != 0 {
				why := []string{}
				if parseOK != 1 {
					why = append(why, "malformed credential")
				}
				if !verifierOK {
					why = append(why, "verifier outcome "+vo)
				}
				if !scopesOK {
					why = append(why, "missing scope")
				}
				if !expiryOK {
					why = append(why, "expired or missing expiration")
				}
				fail("invalid-request-admitted: "+strings.Join(why, "+"), "the handler ran although: %s", strings.Join(why, ", "))
				return false
			}
			// legal statuses: the causes present, in the order parse -> verifier -> scopes/expiry
			var legal []int
			switch {
			case parseOK != 1:
				legal = []int{401}
				if verifierCalls != 0 {
					fail("verifier-called-on-malformed", "the verifier was called for a malformed credential")
					return false
				}
			case strings.TrimSuffix(vo, "+info") == "invalid" || vo == "invalid-empty-message":
				legal = []int{401}
			case strings.TrimSuffix(vo, "+info") == "oauth":
				legal = []int{400}
			case strings.TrimSuffix(vo, "+info") == "other" || vo == "nilinfo" || vo == "other-empty-message":
				legal = []int{500}
			default:
				if !scopesOK {
					legal = append(legal, 403)
				}
				if !expiryOK {
					legal = append(legal, 401)
				}
			}
			if !slices.Contains(legal, status) {
				fail(fmt.Sprintf("wrong-status-%d", status), "status %d, legal for the causes present: %v", status, legal)
				return false
			}
			if (status == 401 || status == 403) && opts != nil {
				hdr := w.Header().Get("WWW-Authenticate")
				if url != "" && !strings.Contains(hdr, fmt.Sprintf("resource_metadata=%q", url)) {
					fail("challenge-missing-metadata-url", "status %d but WWW-Authenticate %q lacks the resource metadata URL", status, hdr)
					return false
				}
				if len(req) > 0 && !strings.Contains(hdr, fmt.Sprintf("scope=%q", strings.Join(req, " "))) {
					fail("challenge-missing-scopes", "status %d but WWW-Authenticate %q lacks scope=%q", status, hdr, strings.Join(req, " "))
					return false
				}
				if (url != "" || len(req) > 0) && !strings.HasPrefix(hdr, "Bearer ") {
					fail("challenge-not-bearer", "WWW-Authenticate %q is not a Bearer challenge", hdr)
					return false
				}
			}
			obs = fmt.Sprintf("rejected-%d parse=%d verifier=%s scopes=%v expiry=%v", status, parseOK, vo, scopesOK, expiryOK)
		}
		return true
	}
	for rep := 0; rep < 3; rep++ {
		if !once(rep) {
			return
		}
	}
	cases.Record(idx, obs, 1, desc)
}

// c14SilentError is a verifier error without a message (built, say, from an optional, empty
// error_description); it may unwrap to one of the sentinel errors.
type c14SilentError struct{ is error }

func (c14SilentError) Error() string   { return "" }
func (e c14SilentError) Unwrap() error { return e.is }

// c14UserID: what a verifier reports is handed on as it is - letter case and padding included.
const c14UserID = " Kim.Doe@Example.COM "
