package jsonrpc2

// C01 (a): every outgoing call completes exactly once, driven at the
// jsonrpc2.Connection seam with a scripted Reader/Writer/Closer.

import (
	"context"
	"encoding/json"
	"errors"
	"fmt"
	"io"
	"sort"
	"strings"
	"testing"

	"github.com/modelcontextprotocol/go-sdk/internal/verifx"
	vs "github.com/modelcontextprotocol/go-sdk/internal/vsched"
)

var errBrokenPipe = errors.New("verif: broken pipe")
var errReadFail = errors.New("verif: read failed")

type c01World struct {
	// ground truth, written by harness threads while they hold the baton
	answered   map[int64]string // call id -> "ok" | "err"
	tagOf      map[int64]string // call id -> method written
	readEnded  string           // "", "eof", "err"
	writeFault map[string]string
	brokenW    bool
	closeCalld bool
	waitDone   bool
	cancelled  map[int]bool
}

type c01T struct {
	w      *c01World
	outbox chan *Request
	inbox  chan Message
	rerr   chan error
	closed chan struct{}
	once   bool
	faults bool
}

func (f *c01T) Read(ctx context.Context) (Message, error) {
	select {
	case m := <-f.inbox:
		return m, nil
	case err := <-f.rerr:
		return nil, err
	case <-f.closed:
		return nil, io.EOF
	}
}

func (f *c01T) Write(ctx context.Context, m Message) error {
	if err := ctx.Err(); err != nil {
		return err
	}
	r, ok := m.(*Request)
	if !ok || !r.IsCall() {
		return nil
	}
	if f.faults {
		switch vs.Choose("fault-write", 3, 1) {
		case 1:
			f.w.writeFault[r.Method] = "rejected"
			return fmt.Errorf("%w: not now", ErrRejected)
		case 2:
			f.w.writeFault[r.Method] = "broken"
			f.w.brokenW = true
			return errBrokenPipe
		}
	}
	f.w.tagOf[r.ID.Raw().(int64)] = r.Method
	select {
	case f.outbox <- r:
		return nil
	case <-f.closed:
		return io.ErrClosedPipe
	}
}

func (f *c01T) Close() error {
	if !f.once {
		f.once = true
		close(f.closed)
	}
	return nil
}

type c01Res struct {
	Tag string `json:"tag"`
}

type c01Opts struct {
	k       int
	faults  bool // write faults
	cancel  bool // a canceller thread cancels caller 0
	closer  bool // a Close thread
	readEnd bool // the peer may end the read side
}

func c01Scenario(o c01Opts) vs.Verdict {
	w := &c01World{answered: map[int64]string{}, tagOf: map[int64]string{}, writeFault: map[string]string{}, cancelled: map[int]bool{}}
	ft := &c01T{w: w, outbox: make(chan *Request, 8), inbox: make(chan Message, 16), rerr: make(chan error, 1), closed: make(chan struct{}), faults: o.faults}
	var internalErr string
	c := NewConnection(context.Background(), ConnectionConfig{
		Reader: ft, Writer: ft, Closer: ft,
		Bind: func(*Connection) Handler {
			return HandlerFunc(func(ctx context.Context, r *Request) (any, error) { return nil, ErrNotHandled })
		},
		OnInternalError: func(err error) { internalErr = err.Error() },
	})
	results := make([]string, o.k)
	bad := ""
	fail := func(sig, format string, a ...any) {
		if bad == "" {
			bad = sig + "\x00" + fmt.Sprintf(format, a...)
		}
	}
	done := make(chan int, o.k+4)
	ctxs := make([]context.Context, o.k)
	cancels := make([]context.CancelFunc, o.k)
	for i := range ctxs {
		ctxs[i], cancels[i] = context.WithCancel(context.Background())
	}
	quit := make(chan struct{})

	// peer: consumes written calls and answers them according to a free menu
	vs.GoDaemon(func() {
		answer := func(r *Request, mode int) {
			id := r.ID.Raw().(int64)
			switch mode {
			case 0:
				raw, _ := json.Marshal(c01Res{Tag: r.Method})
				w.answered[id] = "ok"
				ft.inbox <- &Response{ID: r.ID, Result: raw}
			case 1:
				w.answered[id] = "err"
				ft.inbox <- &Response{ID: r.ID, Error: &WireError{Code: 4200 + id, Message: "peer error " + r.Method, Data: json.RawMessage(`{"d":"` + r.Method + `"}`)}}
			case 2: // a response to an id that was never issued, then the real one
				raw, _ := json.Marshal(c01Res{Tag: "bogus"})
				ft.inbox <- &Response{ID: Int64ID(1000 + id), Result: raw}
				raw, _ = json.Marshal(c01Res{Tag: r.Method})
				w.answered[id] = "ok"
				ft.inbox <- &Response{ID: r.ID, Result: raw}
			}
		}
		var handle func(r *Request)
		handle = func(r *Request) {
			if w.readEnded != "" {
				return // the read side is gone: nothing can be answered any more
			}
			n := 4
			if o.readEnd {
				n = 6
			}
			switch m := vs.Choose("peer", n, 0); m {
			case 0, 1, 2:
				answer(r, m)
			case 3:
				// hold: let everything else run dry, serve what arrived meanwhile, then answer late
				vs.WaitIdle()
				for more := true; more; {
					select {
					case r2 := <-ft.outbox:
						handle(r2)
					default:
						more = false
					}
				}
				if w.readEnded == "" {
					answer(r, 0)
				}
			case 4:
				w.readEnded = "eof"
				ft.rerr <- io.EOF
			case 5:
				w.readEnded = "err"
				ft.rerr <- errReadFail
			}
		}
		for {
			select {
			case r := <-ft.outbox:
				handle(r)
			case <-quit:
				return
			case <-ft.closed:
				return
			}
		}
	})

	for i := 0; i < o.k; i++ {
		vs.Go(func() {
			var r c01Res
			tag := fmt.Sprintf("m%d", i)
			ac := c.Call(ctxs[i], tag, nil)
			err := ac.Await(ctxs[i], &r)
			id := ac.ID().Raw().(int64)
			switch {
			case err == nil:
				results[i] = "ok"
				if r.Tag != tag {
					fail("wrong-response", "caller %d (id %d) received the payload of %q", i, id, r.Tag)
				} else if w.answered[id] != "ok" {
					fail("phantom-success", "caller %d succeeded although the peer never answered id %d with a result", i, id)
				}
			default:
				results[i] = "err"
				var we *WireError
				switch {
				case errors.As(err, &we) && we.Code == 4200+id:
					if w.answered[id] != "err" || we.Message != "peer error "+tag || string(we.Data) != `{"d":"`+tag+`"}` {
						fail("error-payload", "caller %d got error payload %+v not matching the peer's answer", i, we)
					}
					results[i] = "peererr"
				case errors.Is(err, context.Canceled):
					if !w.cancelled[i] {
						fail("spurious-cancel", "caller %d got context.Canceled but was never cancelled", i)
					}
					results[i] = "cancelled"
				case errors.Is(err, ErrRejected):
					if w.writeFault[tag] != "rejected" {
						fail("spurious-rejected", "caller %d got ErrRejected but its write was not rejected", i)
					}
					results[i] = "rejected"
				case errors.Is(err, errBrokenPipe):
					if w.writeFault[tag] != "broken" {
						fail("spurious-broken", "caller %d got the broken-pipe error of another write", i)
					}
					results[i] = "broken"
				case errors.Is(err, io.EOF) || errors.Is(err, errReadFail):
					if w.readEnded == "" && !w.closeCalld && !w.brokenW {
						fail("spurious-readerr", "caller %d got %v although the reader never failed", i, err)
					}
					results[i] = "readerr"
				case errors.Is(err, ErrClientClosing) || errors.Is(err, ErrServerClosing) || errors.Is(err, io.ErrClosedPipe):
					if !w.closeCalld && w.readEnded == "" && !w.brokenW {
						fail("spurious-closing", "caller %d got %v although nothing closed or broke the connection", i, err)
					}
					results[i] = "closing"
				default:
					fail("unexpected-error", "caller %d got unexpected error %v", i, err)
				}
			}
			done <- i
		})
	}
	if o.cancel {
		vs.Go(func() {
			vs.Point()
			w.cancelled[0] = true
			cancels[0]()
			done <- -2
		})
	}
	if o.closer {
		vs.Go(func() {
			vs.Point()
			w.closeCalld = true
			c.Close()
			done <- -1
		})
	}
	n := o.k
	if o.cancel {
		n++
	}
	if o.closer {
		n++
	}
	for i := 0; i < n; i++ {
		<-done
	}
	w.closeCalld = true
	c.Close()
	c.Wait()
	w.waitDone = true
	// a call started after Wait returned fails immediately with a closing error
	ac := c.Call(context.Background(), "late", nil)
	select {
	case <-ac.ready:
		err := ac.Await(context.Background(), nil)
		if !errors.Is(err, ErrClientClosing) {
			fail("late-call-error", "call after Wait returned %v, want an error that is ErrClientClosing", err)
		}
	default:
		fail("late-call-blocks", "call after Wait is not complete when Call returns")
	}
	close(quit)
	for _, cf := range cancels {
		cf()
	}
	if internalErr != "" {
		fail("internal-error", "internal error reported: %s", internalErr)
	}
	// completeness: an error result needs a cause that occurred in this execution
	sorted := append([]string{}, results...)
	sort.Strings(sorted)
	obs := strings.Join(sorted, ",") + " read=" + w.readEnded
	if bad != "" {
		sig, msg, _ := strings.Cut(bad, "\x00")
		return vs.Verdict{Obs: obs, Bad: msg, Sig: "c01a " + sig}
	}
	return vs.Verdict{Obs: obs}
}

func TestVerifC01(t *testing.T) {
	env := verifx.LoadEnv("C01")
	q := env.Quick()
	b := func(quick, thorough int) int {
		if q {
			return quick
		}
		return thorough
	}
	mk := func(name string, budget int, o c01Opts, opt vs.Options) *verifx.Scenario {
		return vs.E1(t, name, budget, opt, func() vs.Verdict { return c01Scenario(o) })
	}
	scs := []*verifx.Scenario{
		mk("a/k2-peer-menu", b(2, 3), c01Opts{k: 2, readEnd: true}, vs.Options{}),
		mk("a/k2-write-faults", b(2, 3), c01Opts{k: 2, faults: true}, vs.Options{}),
		mk("a/k2-cancel", b(2, 3), c01Opts{k: 2, cancel: true}, vs.Options{}),
		mk("a/k2-close", b(2, 3), c01Opts{k: 2, closer: true, readEnd: true}, vs.Options{}),
		mk("a/k3-all", b(1, 2), c01Opts{k: 3, closer: true, cancel: true, faults: true, readEnd: true}, vs.Options{}),
	}
	if !q {
		scs = append(scs,
			mk("a/k2-close-frontq", 2, c01Opts{k: 2, closer: true, readEnd: true, faults: true}, vs.Options{Front: true}),
			mk("a/k3-close", 2, c01Opts{k: 3, closer: true}, vs.Options{}),
		)
	}
	env.Run(scs)
}
