package jsonrpc2

// C05 (A): Close is graceful and terminates, driven at the jsonrpc2.Connection seam
// with a scripted Reader/Writer/Closer, incoming calls and notifications whose
// handlers are gated, an outgoing call, one or two Close threads, a Wait thread,
// reader EOF and write failures at every write.

import (
	"context"
	"encoding/json"
	"errors"
	"fmt"
	"io"
	"strings"
	"testing"

	"github.com/modelcontextprotocol/go-sdk/internal/verifx"
	vs "github.com/modelcontextprotocol/go-sdk/internal/vsched"
)

var errC05Broken = errors.New("verif: broken pipe")

type c05T struct {
	conn      **Connection
	inbox     chan Message
	rerr      chan error
	outbox    chan *Request
	closed    chan struct{}
	once      bool
	faults    bool
	responses map[string]*Response // incoming call method -> response written
	closingAt map[string]bool      // incoming request method -> connection was already closing when Read handed it over
	brokenW   bool
}

func (f *c05T) Read(ctx context.Context) (Message, error) {
	select {
	case m := <-f.inbox:
		if r, ok := m.(*Request); ok {
			// private state: had the connection recorded the close when this request was handed over?
			f.closingAt[r.Method] = (*f.conn).state.connClosing
			vs.Event("read %s closing=%v", r.Method, f.closingAt[r.Method])
		}
		return m, nil
	case err := <-f.rerr:
		vs.Event("read-error")
		return nil, err
	case <-f.closed:
		return nil, io.EOF
	}
}

func (f *c05T) Write(ctx context.Context, m Message) error {
	if err := ctx.Err(); err != nil {
		return err
	}
	if f.once {
		return io.ErrClosedPipe
	}
	if f.faults && !f.brokenW {
		if vs.Choose("fault-write", 2, 1) == 1 {
			f.brokenW = true
			vs.Event("write-broken")
			return errC05Broken
		}
	}
	if f.brokenW {
		return errC05Broken
	}
	switch m := m.(type) {
	case *Response:
		// responses carry the id of the incoming call; map back to its method via the id
		f.responses[fmt.Sprint(m.ID.Raw())] = m
		vs.Event("response %v", m.ID.Raw())
	case *Request:
		if m.IsCall() {
			select {
			case f.outbox <- m:
			case <-f.closed:
				return io.ErrClosedPipe
			}
		}
	}
	return nil
}

func (f *c05T) Close() error {
	if !f.once {
		f.once = true
		vs.Event("transport-closed")
		close(f.closed)
	}
	return nil
}

type c05Opts struct {
	faults     bool
	twoClosers bool
	readEnd    bool
}

func c05Scenario(o c05Opts) vs.Verdict {
	var c *Connection
	ft := &c05T{conn: &c, inbox: make(chan Message, 16), rerr: make(chan error, 1), outbox: make(chan *Request, 4), closed: make(chan struct{}),
		faults: o.faults, responses: map[string]*Response{}, closingAt: map[string]bool{}}
	bad, sig := "", ""
	fail := func(s, format string, a ...any) {
		if bad == "" {
			sig, bad = "c05a "+s, fmt.Sprintf(format, a...)
		}
	}
	ctl := vs.NewController()
	gates := map[string]*vs.Gate{"h0": ctl.Gate("h0"), "n0": ctl.Gate("n0"), "h1": ctl.Gate("h1"), "n1": ctl.Gate("n1")}
	var internalErr string
	c = NewConnection(context.Background(), ConnectionConfig{
		Reader: ft, Writer: ft, Closer: ft,
		Bind: func(*Connection) Handler {
			return HandlerFunc(func(ctx context.Context, r *Request) (any, error) {
				if r.IsCall() {
					Async(ctx)
				}
				vs.Event("start %s", r.Method)
				if ft.closingAt[r.Method] {
					fail("dispatched-after-close "+r.Method, "request %s was handed over after the connection had recorded the close, yet its handler started", r.Method)
				}
				gates[r.Method].Wait()
				vs.Event("finish %s", r.Method)
				if r.IsCall() {
					return map[string]string{"tag": r.Method}, nil
				}
				return nil, nil
			})
		},
		OnInternalError: func(err error) { internalErr = err.Error() },
	})
	closeCalled := make(chan struct{})
	closeFlag := false
	quit := make(chan struct{})
	done := make(chan string, 8)

	// peer: delivers incoming traffic and answers the outgoing call
	vs.GoDaemon(func() {
		send := func(m Message) {
			select {
			case ft.inbox <- m:
			case <-ft.closed:
			}
		}
		call := func(id int64, method string) *Request {
			return &Request{ID: Int64ID(id), Method: method, Params: json.RawMessage(`{}`)}
		}
		send(call(100, "h0"))
		send(&Request{Method: "n0", Params: json.RawMessage(`{}`)})
		// the outgoing call is answered now, late (after Close began), or never
		var out *Request
		select {
		case out = <-ft.outbox:
		case <-quit:
			return
		case <-ft.closed:
			return
		}
		mode := vs.Choose("peer-out", 3, 0)
		if mode == 0 {
			send(&Response{ID: out.ID, Result: json.RawMessage(`{"tag":"out"}`)})
		}
		// traffic that arrives while (or after) Close is in progress
		select {
		case <-closeCalled:
		case <-quit:
			return
		case <-ft.closed:
			return
		}
		send(call(101, "h1"))
		send(&Request{Method: "n1", Params: json.RawMessage(`{}`)})
		if mode == 1 {
			send(&Response{ID: out.ID, Result: json.RawMessage(`{"tag":"out"}`)})
		}
		if o.readEnd || mode == 2 {
			// the peer vanishes: the read side ends (an unanswered outgoing call can only end this way)
			k := 0
			if o.readEnd && mode != 2 {
				k = vs.Choose("peer-eof", 2, 0)
			} else {
				k = 1
			}
			if k == 1 {
				vs.WaitIdle()
				select {
				case ft.rerr <- io.EOF:
				default:
				}
			}
		}
	})
	// one outgoing call
	vs.Go(func() {
		var r struct {
			Tag string `json:"tag"`
		}
		err := c.Call(context.Background(), "out", nil).Await(context.Background(), &r)
		if err == nil && r.Tag != "out" {
			fail("wrong-response", "outgoing call got %q", r.Tag)
		}
		if err != nil {
			done <- "out:err"
		} else {
			done <- "out:ok"
		}
	})
	closer := func(name string) {
		vs.Go(func() {
			vs.Point()
			if !closeFlag {
				closeFlag = true
				close(closeCalled)
			}
			vs.Event("close-called")
			c.Close()
			vs.Event("close-returned")
			done <- name
		})
	}
	closer("close1")
	n := 3
	if o.twoClosers {
		closer("close2")
		n++
	}
	vs.Go(func() {
		c.Wait()
		vs.Event("wait-returned")
		done <- "wait"
	})
	var got []string
	for i := 0; i < n; i++ {
		got = append(got, <-done)
	}
	ctl.Stop()
	close(quit)
	if internalErr != "" {
		fail("internal-error", "internal error: %s", internalErr)
	}
	evs := vs.Events()
	idx := func(name string) int {
		for i, e := range evs {
			if e == name {
				return i
			}
		}
		return -1
	}
	tc := idx("transport-closed")
	if tc < 0 {
		fail("transport-not-closed", "Close and Wait returned but the transport was never closed: %s", strings.Join(evs, " "))
	}
	for _, m := range []string{"h0", "n0", "h1", "n1"} {
		st, fin := idx("start "+m), idx("finish "+m)
		if st >= 0 && fin < 0 {
			fail("handler-abandoned "+m, "handler %s started but never finished: %s", m, strings.Join(evs, " "))
		}
		if fin >= 0 && tc >= 0 && tc < fin {
			fail("transport-closed-before-handler-returned "+m, "the transport was closed while handler %s was still running: %s", m, strings.Join(evs, " "))
		}
	}
	for _, im := range [][2]string{{"100", "h0"}, {"101", "h1"}} {
		// (whether a call that overlaps the shutdown is still answered is not part of C05:
		// the connection refuses response writes once it is shutting down)
		id, m := im[0], im[1]
		if resp := ft.responses[id]; resp != nil && idx("response "+id) > tc && tc >= 0 {
			fail("response-after-transport-close", "response to %s written after the transport was closed", m)
		}
	}
	if cr := idx("close-returned"); cr >= 0 && tc >= 0 && cr < tc {
		fail("close-returned-early", "Close returned before the transport was closed: %s", strings.Join(evs, " "))
	}
	started := []string{}
	for _, m := range []string{"h0", "n0", "h1", "n1"} {
		if idx("start "+m) >= 0 {
			started = append(started, m)
		}
	}
	obs := fmt.Sprintf("handled=%s out=%s broken=%v", strings.Join(started, "+"), got[0], ft.brokenW)
	for _, g := range got {
		if strings.HasPrefix(g, "out:") {
			obs = fmt.Sprintf("handled=%s %s broken=%v", strings.Join(started, "+"), g, ft.brokenW)
		}
	}
	if bad != "" {
		return vs.Verdict{Obs: obs, Bad: bad, Sig: sig}
	}
	return vs.Verdict{Obs: obs}
}

func TestVerifC05(t *testing.T) {
	env := verifx.LoadEnv("C05")
	mk := func(name string, b int, o c05Opts, opt vs.Options) *verifx.Scenario {
		return vs.E1(t, name, b, opt, func() vs.Verdict { return c05Scenario(o) })
	}
	scs := []*verifx.Scenario{
		mk("a/close", 2, c05Opts{}, vs.Options{}),
		mk("a/two-closers+eof", env.Pick(1, 2), c05Opts{twoClosers: true, readEnd: true}, vs.Options{}),
		mk("a/write-faults+eof", env.Pick(1, 2), c05Opts{faults: true, readEnd: true}, vs.Options{}),
	}
	if !env.Quick() {
		scs = append(scs,
			mk("a/close+eof", 2, c05Opts{readEnd: true}, vs.Options{}),
			mk("a/write-faults-frontq", 2, c05Opts{faults: true, twoClosers: true, readEnd: true}, vs.Options{Front: true}))
	}
	env.Run(scs)
}
