// Command instr builds the overlay used by every check.  It reads the non-test
// sources of the given SDK packages from /repo's working tree, rewrites them so
// that synchronisation becomes visible to vsched (unless -plain), hides the
// repository's own _test.go files from the view, adds the virtual packages
// internal/verifx and internal/vsched and the harness files, and writes
// DIR/overlay.json.  /repo itself is never modified.
//
// Usage: instr -repo /repo -out DIR -engine /verif/engine [-plain] [-add dst=src[:instr]]... pkgdir...
package main

import (
	"bytes"
	"encoding/json"
	"flag"
	"fmt"
	"go/ast"
	"go/format"
	"go/parser"
	"go/token"
	"go/types"
	"os"
	"path/filepath"
	"strconv"
	"strings"

	"golang.org/x/tools/go/ast/astutil"
	"golang.org/x/tools/go/packages"
)

const modulePath = "github.com/modelcontextprotocol/go-sdk"
const vschedPath = modulePath + "/internal/vsched"

type multi []string

func (m *multi) String() string     { return strings.Join(*m, ",") }
func (m *multi) Set(s string) error { *m = append(*m, s); return nil }

func main() {
	repo := flag.String("repo", "/repo", "")
	out := flag.String("out", "", "")
	engine := flag.String("engine", "/verif/engine", "dir with verifx/ and vsched/ sources")
	plain := flag.Bool("plain", false, "do not instrument, only hide tests and add files")
	var adds multi
	flag.Var(&adds, "add", "dstRelPath=srcAbsPath[:instr] (file added to the overlay; instrumented when suffixed :instr)")
	var hides multi
	flag.Var(&hides, "hide-tests", "package dir whose _test.go files are hidden without instrumenting the package")
	flag.Parse()
	replace := map[string]string{}
	os.MkdirAll(*out, 0o755)
	if !*plain && len(flag.Args()) > 0 {
		var pats []string
		for _, pkg := range flag.Args() {
			pats = append(pats, "./"+pkg)
		}
		cfg := &packages.Config{
			Mode: packages.NeedName | packages.NeedFiles | packages.NeedCompiledGoFiles | packages.NeedSyntax | packages.NeedTypes | packages.NeedTypesInfo | packages.NeedImports,
			Dir:  *repo,
		}
		pkgs, err := packages.Load(cfg, pats...)
		if err != nil {
			panic(err)
		}
		for _, p := range pkgs {
			for _, e := range p.Errors {
				fmt.Fprintf(os.Stderr, "instr: %s: %v\n", p.PkgPath, e)
			}
			if len(p.Errors) > 0 {
				os.Exit(1)
			}
			rel := strings.TrimPrefix(strings.TrimPrefix(p.PkgPath, modulePath), "/")
			for i, f := range p.Syntax {
				src := p.CompiledGoFiles[i]
				dst := filepath.Join(*out, strings.ReplaceAll(rel, "/", "_")+"__"+filepath.Base(src))
				if err := instrumentFile(p.Fset, f, p.TypesInfo, dst); err != nil {
					panic(fmt.Errorf("%s: %w", src, err))
				}
				replace[src] = dst
			}
		}
	}
	for _, pkg := range flag.Args() {
		dir := filepath.Join(*repo, pkg)
		ents, err := os.ReadDir(dir)
		if err != nil {
			panic(err)
		}
		for _, e := range ents {
			if strings.HasSuffix(e.Name(), "_test.go") {
				replace[filepath.Join(dir, e.Name())] = "" // hide the repo's own tests from the view
			}
		}
	}
	for _, pkg := range hides {
		ents, _ := os.ReadDir(filepath.Join(*repo, pkg))
		for _, e := range ents {
			if strings.HasSuffix(e.Name(), "_test.go") {
				replace[filepath.Join(*repo, pkg, e.Name())] = ""
			}
		}
	}
	for _, a := range adds {
		dstRel, src, _ := strings.Cut(a, "=")
		if strings.HasSuffix(src, ":instr") {
			src = strings.TrimSuffix(src, ":instr")
			dst := filepath.Join(*out, "add__"+strings.ReplaceAll(dstRel, "/", "_"))
			if err := instrument(src, dst); err != nil {
				panic(fmt.Errorf("%s: %w", src, err))
			}
			replace[filepath.Join(*repo, dstRel)] = dst
		} else {
			replace[filepath.Join(*repo, dstRel)] = src
		}
	}
	for _, vp := range []string{"vsched", "verifx"} {
		vs, _ := filepath.Glob(filepath.Join(*engine, vp, "*.go"))
		for _, f := range vs {
			replace[filepath.Join(*repo, "internal", vp, filepath.Base(f))] = f
		}
	}
	data, _ := json.MarshalIndent(map[string]any{"Replace": replace}, "", " ")
	os.WriteFile(filepath.Join(*out, "overlay.json"), data, 0o644)
}

type rewriter struct {
	fset       *token.FileSet
	file       *ast.File
	tmp        int
	usedVS     bool
	timeNm     string // local name of "time"
	mapsNm     string // local name of "maps"
	randNms    map[string]string
	pendingPre []ast.Stmt
	info       *types.Info // nil for files instrumented without type information (harness files)
}

func instrument(src, dst string) error {
	fset := token.NewFileSet()
	f, err := parser.ParseFile(fset, src, nil, parser.ParseComments)
	if err != nil {
		return err
	}
	return instrumentFile(fset, f, nil, dst)
}

// curInfo is the type information of the file being instrumented (nil for harness files).
var curInfo *types.Info

func instrumentFile(fset *token.FileSet, f *ast.File, info *types.Info, dst string) error {
	// keep only directive comments (go:build etc.)
	var keep []*ast.CommentGroup
	for _, cg := range f.Comments {
		if cg.End() < f.Package {
			for _, c := range cg.List {
				if strings.HasPrefix(c.Text, "//go:") {
					keep = append(keep, cg)
					break
				}
			}
		}
	}
	f.Comments = keep
	f.Doc = nil
	curInfo = info
	r := &rewriter{fset: fset, file: f, randNms: map[string]string{}, info: info}
	// imports
	for _, im := range f.Imports {
		p, _ := strconv.Unquote(im.Path.Value)
		switch p {
		case "sync":
			im.Path.Value = strconv.Quote(vschedPath)
			if im.Name == nil {
				im.Name = ast.NewIdent("sync")
			}
		case "maps":
			r.mapsNm = "maps"
			if im.Name != nil {
				r.mapsNm = im.Name.Name
			}
		case "time":
			r.timeNm = "time"
			if im.Name != nil {
				r.timeNm = im.Name.Name
			}
		case "crypto/rand", "math/rand/v2", "math/rand":
			nm := "rand"
			if im.Name != nil {
				nm = im.Name.Name
			}
			r.randNms[nm] = p
		}
	}
	r.selectors()
	r.regPointers()
	for _, d := range f.Decls {
		if fd, ok := d.(*ast.FuncDecl); ok && fd.Body != nil {
			r.block(fd.Body)
		} else {
			r.exprsIn(d)
		}
	}
	if r.usedVS {
		addImport(f, "vsched_", vschedPath)
	}
	dropUnusedImports(f)
	var buf bytes.Buffer
	if err := format.Node(&buf, fset, f); err != nil {
		return err
	}
	return os.WriteFile(dst, buf.Bytes(), 0o644)
}

// selectors rewrites package-qualified names in place, anywhere in the file:
// time.Timer, time.AfterFunc, time.NewTimer, crypto/rand.Text, math/rand/v2.N.
func (r *rewriter) selectors() {
	ast.Inspect(r.file, func(n ast.Node) bool {
		se, ok := n.(*ast.SelectorExpr)
		if !ok {
			return true
		}
		id, ok := se.X.(*ast.Ident)
		if !ok || id.Obj != nil {
			return true
		}
		to := ""
		if r.timeNm != "" && id.Name == r.timeNm {
			switch se.Sel.Name {
			case "Timer", "AfterFunc", "NewTimer":
				to = se.Sel.Name
			}
		}
		if id.Name == r.mapsNm && r.mapsNm != "" {
			switch se.Sel.Name {
			case "Keys", "Values", "All":
				to = "Map" + se.Sel.Name
			}
		}
		if p, ok := r.randNms[id.Name]; ok {
			switch {
			case se.Sel.Name == "Text" && p == "crypto/rand":
				to = "RandText"
			case se.Sel.Name == "N" && p == "math/rand/v2":
				to = "RandN"
			}
		}
		if to != "" {
			r.usedVS = true
			se.X = ast.NewIdent("vsched_")
			se.Sel = ast.NewIdent(to)
		}
		return true
	})
}

// regPointers wraps `&T{...}` in vsched_.Reg(...) for every struct type T whose
// pointer is used as a map key in the package, giving such keys a canonical order.
func (r *rewriter) regPointers() {
	if r.info == nil {
		return
	}
	keyed := map[types.Type]bool{}
	for _, tv := range r.info.Types {
		if m, ok := tv.Type.Underlying().(*types.Map); ok {
			if p, ok := m.Key().Underlying().(*types.Pointer); ok {
				keyed[p.Elem()] = true
			}
		}
	}
	if len(keyed) == 0 {
		return
	}
	astutil.Apply(r.file, nil, func(c *astutil.Cursor) bool {
		u, ok := c.Node().(*ast.UnaryExpr)
		if !ok || u.Op != token.AND {
			return true
		}
		cl, ok := u.X.(*ast.CompositeLit)
		if !ok {
			return true
		}
		if t := r.info.TypeOf(cl); t != nil && keyed[t] {
			c.Replace(&ast.CallExpr{Fun: r.vs("Reg"), Args: []ast.Expr{u}})
		}
		return true
	})
}

func addImport(f *ast.File, name, path string) {
	spec := &ast.ImportSpec{Name: ast.NewIdent(name), Path: &ast.BasicLit{Kind: token.STRING, Value: strconv.Quote(path)}}
	for _, d := range f.Decls {
		if gd, ok := d.(*ast.GenDecl); ok && gd.Tok == token.IMPORT {
			gd.Specs = append(gd.Specs, spec)
			if !gd.Lparen.IsValid() {
				gd.Lparen = gd.Pos()
				gd.Rparen = gd.End()
			}
			f.Imports = append(f.Imports, spec)
			return
		}
	}
	gd := &ast.GenDecl{Tok: token.IMPORT, Specs: []ast.Spec{spec}}
	f.Decls = append([]ast.Decl{gd}, f.Decls...)
	f.Imports = append(f.Imports, spec)
}

func dropUnusedImports(f *ast.File) {
	used := map[string]bool{}
	ast.Inspect(f, func(n ast.Node) bool {
		if se, ok := n.(*ast.SelectorExpr); ok {
			if id, ok := se.X.(*ast.Ident); ok {
				used[id.Name] = true
			}
		}
		return true
	})
	for _, d := range f.Decls {
		gd, ok := d.(*ast.GenDecl)
		if !ok || gd.Tok != token.IMPORT {
			continue
		}
		var specs []ast.Spec
		for _, s := range gd.Specs {
			im := s.(*ast.ImportSpec)
			p, _ := strconv.Unquote(im.Path.Value)
			nm := filepath.Base(p)
			if strings.HasPrefix(nm, "v") && len(nm) <= 3 { // .../v2
				nm = filepath.Base(filepath.Dir(p))
			}
			if im.Name != nil {
				nm = im.Name.Name
			}
			if nm == "_" || nm == "." || used[nm] {
				specs = append(specs, s)
			}
		}
		gd.Specs = specs
	}
}

func (r *rewriter) vs(fn string) ast.Expr {
	r.usedVS = true
	return &ast.SelectorExpr{X: ast.NewIdent("vsched_"), Sel: ast.NewIdent(fn)}
}

func (r *rewriter) point() ast.Stmt {
	return &ast.ExprStmt{X: &ast.CallExpr{Fun: r.vs("Point")}}
}

func (r *rewriter) fresh(p string) string { r.tmp++; return fmt.Sprintf("_vs%s%d", p, r.tmp) }

// exprsIn rewrites call expressions (time.AfterFunc etc.) and descends into func literals.
func (r *rewriter) exprsIn(n ast.Node) {
	ast.Inspect(n, func(n ast.Node) bool {
		switch n := n.(type) {
		case *ast.FuncLit:
			r.block(n.Body)
			return false
		}
		return true
	})
}

// hasChanOp reports whether the statement (not descending into func literals or nested blocks)
// contains a receive, or is a send / close.
func hasChanOp(n ast.Node) bool {
	found := false
	ast.Inspect(n, func(n ast.Node) bool {
		switch n := n.(type) {
		case *ast.FuncLit, *ast.BlockStmt:
			return false
		case *ast.UnaryExpr:
			if n.Op == token.ARROW {
				found = true
			}
		case *ast.SendStmt:
			found = true
		case *ast.CallExpr:
			if id, ok := n.Fun.(*ast.Ident); ok && id.Name == "close" && len(n.Args) == 1 {
				found = true
			}
			if se, ok := n.Fun.(*ast.SelectorExpr); ok {
				if id, ok := se.X.(*ast.Ident); ok && id.Name == "atomic" && id.Obj == nil {
					found = true
				}
				// methods of the typed atomics (atomic.Int64, atomic.Bool, atomic.Pointer[T], ...)
				if curInfo != nil {
					if sel := curInfo.Selections[se]; sel != nil {
						t := sel.Recv()
						if p, ok := t.(*types.Pointer); ok {
							t = p.Elem()
						}
						if nt, ok := t.(*types.Named); ok && nt.Obj().Pkg() != nil && nt.Obj().Pkg().Path() == "sync/atomic" {
							found = true
						}
					}
				}
			}
		}
		return !found
	})
	return found
}

func (r *rewriter) block(b *ast.BlockStmt) {
	if b == nil {
		return
	}
	b.List = r.stmts(b.List)
}

func (r *rewriter) stmts(list []ast.Stmt) []ast.Stmt {
	var out []ast.Stmt
	for _, s := range list {
		out = append(out, r.stmt(s)...)
	}
	return out
}

func (r *rewriter) stmt(s ast.Stmt) []ast.Stmt {
	switch s := s.(type) {
	case *ast.BlockStmt:
		r.block(s)
		return []ast.Stmt{s}
	case *ast.IfStmt:
		pre := false
		if s.Init != nil && hasChanOp(s.Init) || hasChanOp(s.Cond) {
			pre = true
		}
		if s.Init != nil {
			r.exprsIn(s.Init)
		}
		r.exprsIn(s.Cond)
		r.block(s.Body)
		if s.Else != nil {
			e := r.stmt(s.Else)
			if len(e) == 1 {
				s.Else = e[0]
			} else {
				s.Else = &ast.BlockStmt{List: e}
			}
		}
		if pre {
			return []ast.Stmt{r.point(), s}
		}
		return []ast.Stmt{s}
	case *ast.ForStmt:
		if s.Init != nil {
			r.exprsIn(s.Init)
		}
		if s.Cond != nil {
			r.exprsIn(s.Cond)
		}
		if s.Post != nil {
			r.exprsIn(s.Post)
		}
		r.block(s.Body)
		return []ast.Stmt{s}
	case *ast.RangeStmt:
		r.exprsIn(s.X)
		r.block(s.Body)
		r.mapRange(s)
		if len(r.pendingPre) > 0 {
			// the map expression is evaluated once, just before the loop
			out := append(r.pendingPre, s)
			r.pendingPre = nil
			return out
		}
		return []ast.Stmt{s}
	case *ast.SwitchStmt:
		if s.Init != nil {
			r.exprsIn(s.Init)
		}
		if s.Tag != nil {
			r.exprsIn(s.Tag)
		}
		for _, c := range s.Body.List {
			cc := c.(*ast.CaseClause)
			for _, e := range cc.List {
				r.exprsIn(e)
			}
			cc.Body = r.stmts(cc.Body)
		}
		return []ast.Stmt{s}
	case *ast.TypeSwitchStmt:
		r.exprsIn(s.Assign)
		for _, c := range s.Body.List {
			cc := c.(*ast.CaseClause)
			cc.Body = r.stmts(cc.Body)
		}
		return []ast.Stmt{s}
	case *ast.LabeledStmt:
		inner := r.stmt(s.Stmt)
		if len(inner) == 1 {
			s.Stmt = inner[0]
			return []ast.Stmt{s}
		}
		// point(s) first, label stays on the real statement
		s.Stmt = inner[len(inner)-1]
		return append(inner[:len(inner)-1], s)
	case *ast.GoStmt:
		return []ast.Stmt{r.goStmt(s)}
	case *ast.SelectStmt:
		return r.selectStmt(s)
	case *ast.DeferStmt:
		r.exprsIn(s.Call)
		return []ast.Stmt{s}
	default:
		op := hasChanOp(s)
		r.exprsIn(s)
		if op {
			return []ast.Stmt{r.point(), s}
		}
		return []ast.Stmt{s}
	}
}

// mapRange makes iteration over a map deterministic (owned nondeterminism):
//
//	for k, v := range m { body }
//
// becomes
//
//	for _, k := range vsched_.SortedKeys(m) { v, ok := m[k]; if !ok { continue }; body }
//
// which keeps Go's guarantee that entries deleted during the iteration are not produced.
func (r *rewriter) mapRange(s *ast.RangeStmt) {
	if r.info == nil {
		return
	}
	t := r.info.TypeOf(s.X)
	if t == nil {
		return
	}
	if _, ok := t.Underlying().(*types.Map); !ok {
		return
	}
	isBlank := func(e ast.Expr) bool {
		if e == nil {
			return true
		}
		id, ok := e.(*ast.Ident)
		return ok && id.Name == "_"
	}
	m := s.X
	var pre []ast.Stmt
	// evaluate the map expression once
	mv := r.fresh("m")
	keyVar := r.fresh("k")
	okVar := r.fresh("ok")
	outerAssign := &ast.AssignStmt{Lhs: []ast.Expr{ast.NewIdent(mv)}, Tok: token.DEFINE, Rhs: []ast.Expr{m}}
	idx := &ast.IndexExpr{X: ast.NewIdent(mv), Index: ast.NewIdent(keyVar)}
	valLhs := ast.Expr(ast.NewIdent("_"))
	tok := token.DEFINE
	if !isBlank(s.Value) {
		valLhs = s.Value
		if s.Tok == token.ASSIGN {
			// v already exists: use a temporary and assign
			tmp := r.fresh("v")
			pre = append(pre, &ast.AssignStmt{Lhs: []ast.Expr{ast.NewIdent(tmp), ast.NewIdent(okVar)}, Tok: token.DEFINE, Rhs: []ast.Expr{idx}})
			pre = append(pre, &ast.IfStmt{Cond: &ast.UnaryExpr{Op: token.NOT, X: ast.NewIdent(okVar)}, Body: &ast.BlockStmt{List: []ast.Stmt{&ast.BranchStmt{Tok: token.CONTINUE}}}})
			pre = append(pre, &ast.AssignStmt{Lhs: []ast.Expr{s.Value}, Tok: token.ASSIGN, Rhs: []ast.Expr{ast.NewIdent(tmp)}})
			valLhs = nil
		}
	}
	if valLhs != nil {
		pre = append(pre, &ast.AssignStmt{Lhs: []ast.Expr{valLhs, ast.NewIdent(okVar)}, Tok: tok, Rhs: []ast.Expr{idx}})
		pre = append(pre, &ast.IfStmt{Cond: &ast.UnaryExpr{Op: token.NOT, X: ast.NewIdent(okVar)}, Body: &ast.BlockStmt{List: []ast.Stmt{&ast.BranchStmt{Tok: token.CONTINUE}}}})
		if !isBlank(s.Value) {
			// silence "declared and not used" when the body ignores v
			pre = append(pre, &ast.AssignStmt{Lhs: []ast.Expr{ast.NewIdent("_")}, Tok: token.ASSIGN, Rhs: []ast.Expr{s.Value}})
		}
	}
	if !isBlank(s.Key) {
		if s.Tok == token.ASSIGN {
			pre = append([]ast.Stmt{&ast.AssignStmt{Lhs: []ast.Expr{s.Key}, Tok: token.ASSIGN, Rhs: []ast.Expr{ast.NewIdent(keyVar)}}}, pre...)
		} else {
			pre = append([]ast.Stmt{
				&ast.AssignStmt{Lhs: []ast.Expr{s.Key}, Tok: token.DEFINE, Rhs: []ast.Expr{ast.NewIdent(keyVar)}},
				&ast.AssignStmt{Lhs: []ast.Expr{ast.NewIdent("_")}, Tok: token.ASSIGN, Rhs: []ast.Expr{s.Key}},
			}, pre...)
		}
	}
	s.Body.List = append(pre, s.Body.List...)
	s.Key = ast.NewIdent("_")
	s.Value = ast.NewIdent(keyVar)
	s.Tok = token.DEFINE
	s.X = &ast.CallExpr{Fun: r.vs("SortedKeys"), Args: []ast.Expr{ast.NewIdent(mv)}}
	r.pendingPre = append(r.pendingPre, outerAssign)
}

func (r *rewriter) goStmt(s *ast.GoStmt) ast.Stmt {
	r.exprsIn(s.Call)
	call := s.Call
	var pre []ast.Stmt
	if fl, ok := call.Fun.(*ast.FuncLit); ok && len(call.Args) == 0 {
		return &ast.ExprStmt{X: &ast.CallExpr{Fun: r.vs("Go"), Args: []ast.Expr{fl}}}
	}
	// bind non-literal args to temporaries so they are evaluated now
	for i, a := range call.Args {
		switch x := a.(type) {
		case *ast.BasicLit:
			continue
		case *ast.Ident:
			if x.Name == "nil" || x.Name == "true" || x.Name == "false" {
				continue
			}
		}
		t := r.fresh("a")
		pre = append(pre, &ast.AssignStmt{Lhs: []ast.Expr{ast.NewIdent(t)}, Tok: token.DEFINE, Rhs: []ast.Expr{a}})
		call.Args[i] = ast.NewIdent(t)
	}
	fl := &ast.FuncLit{Type: &ast.FuncType{Params: &ast.FieldList{}}, Body: &ast.BlockStmt{List: []ast.Stmt{&ast.ExprStmt{X: call}}}}
	g := &ast.ExprStmt{X: &ast.CallExpr{Fun: r.vs("Go"), Args: []ast.Expr{fl}}}
	if len(pre) == 0 {
		return g
	}
	return &ast.BlockStmt{List: append(pre, g)}
}

func (r *rewriter) selectStmt(s *ast.SelectStmt) []ast.Stmt {
	ncomm := 0
	for _, c := range s.Body.List {
		cc := c.(*ast.CommClause)
		if cc.Comm != nil {
			ncomm++
			r.exprsIn(cc.Comm)
		}
		cc.Body = r.stmts(cc.Body)
	}
	if ncomm < 2 {
		return []ast.Stmt{r.point(), s}
	}
	var pre []ast.Stmt
	var args []ast.Expr
	sw := &ast.SwitchStmt{Body: &ast.BlockStmt{}}
	hasDefault := "false"
	idx := 0
	for _, c := range s.Body.List {
		cc := c.(*ast.CommClause)
		if cc.Comm == nil {
			hasDefault = "true"
			sw.Body.List = append(sw.Body.List, &ast.CaseClause{List: nil, Body: cc.Body})
			continue
		}
		tmp := r.fresh("c")
		var body []ast.Stmt
		switch cm := cc.Comm.(type) {
		case *ast.SendStmt:
			pre = append(pre,
				&ast.AssignStmt{Lhs: []ast.Expr{ast.NewIdent(tmp)}, Tok: token.DEFINE, Rhs: []ast.Expr{&ast.CallExpr{Fun: r.vs("SendOn"), Args: []ast.Expr{cm.Chan}}}},
				&ast.AssignStmt{Lhs: []ast.Expr{&ast.SelectorExpr{X: ast.NewIdent(tmp), Sel: ast.NewIdent("V")}}, Tok: token.ASSIGN, Rhs: []ast.Expr{cm.Value}})
		case *ast.ExprStmt:
			ch := cm.X.(*ast.UnaryExpr).X
			pre = append(pre, &ast.AssignStmt{Lhs: []ast.Expr{ast.NewIdent(tmp)}, Tok: token.DEFINE, Rhs: []ast.Expr{&ast.CallExpr{Fun: r.vs("RecvOf"), Args: []ast.Expr{ch}}}})
		case *ast.AssignStmt:
			ch := cm.Rhs[0].(*ast.UnaryExpr).X
			pre = append(pre, &ast.AssignStmt{Lhs: []ast.Expr{ast.NewIdent(tmp)}, Tok: token.DEFINE, Rhs: []ast.Expr{&ast.CallExpr{Fun: r.vs("RecvOf"), Args: []ast.Expr{ch}}}})
			rhs := []ast.Expr{&ast.SelectorExpr{X: ast.NewIdent(tmp), Sel: ast.NewIdent("Val")}}
			if len(cm.Lhs) == 2 {
				rhs = append(rhs, &ast.SelectorExpr{X: ast.NewIdent(tmp), Sel: ast.NewIdent("OK")})
			}
			body = append(body, &ast.AssignStmt{Lhs: cm.Lhs, Tok: cm.Tok, Rhs: rhs})
		default:
			panic("unsupported comm clause")
		}
		args = append(args, ast.NewIdent(tmp))
		sw.Body.List = append(sw.Body.List, &ast.CaseClause{
			List: []ast.Expr{&ast.BasicLit{Kind: token.INT, Value: strconv.Itoa(idx)}},
			Body: append(body, cc.Body...),
		})
		idx++
	}
	if hasDefault == "false" {
		sw.Body.List = append(sw.Body.List, &ast.CaseClause{List: nil, Body: []ast.Stmt{
			&ast.ExprStmt{X: &ast.CallExpr{Fun: ast.NewIdent("panic"), Args: []ast.Expr{&ast.BasicLit{Kind: token.STRING, Value: `"vsched: bad select index"`}}}},
		}})
	}
	sw.Tag = &ast.CallExpr{Fun: r.vs("Select"), Args: append([]ast.Expr{ast.NewIdent(hasDefault)}, args...)}
	return []ast.Stmt{&ast.BlockStmt{List: append(pre, sw)}}
}
