package verifx

import (
	"encoding/json"
	"fmt"
	"os"
	"sync"
)

// Cases accounts for a bounded-exhaustive enumeration of inputs/configurations
// (a full product or all combinations of <=d deviations), each evaluated on the
// real code against a reference predicate.  Cases are numbered; shards take
// i % NShards == Shard.
type Cases struct {
	e       *Env
	res     *Result
	st      *ScenarioStats
	mu      sync.Mutex
	unknown map[string]bool
	known   map[string]bool
	replay  int // case index to replay, -1 otherwise
	next    int
	// NoMark disables the per-case crash marker (for very cheap, very numerous cases).
	NoMark bool
}

func (e *Env) NewCases(res *Result, name string) *Cases {
	c := &Cases{e: e, res: res, unknown: map[string]bool{}, known: map[string]bool{}, replay: -1}
	c.st = &ScenarioStats{Name: name, Outcomes: map[string]int{}, Deviations: map[string]int{}, Complete: true}
	res.Scenarios = append(res.Scenarios, c.st)
	if e.Replay != "" {
		c.replay = -2 // replaying, but not this scenario
		if data, err := os.ReadFile(e.Replay); err == nil {
			var r struct {
				Scenario string
				Choices  []Point
			}
			if json.Unmarshal(data, &r) == nil && r.Scenario == name && len(r.Choices) == 1 {
				c.replay = r.Choices[0].Chosen
			}
		}
	}
	return c
}

// Next numbers the next case and reports whether this process should evaluate it.
func (c *Cases) Next() (idx int, mine bool) {
	idx = c.next
	c.next++
	switch {
	case c.replay == -2:
		return idx, false
	case c.replay >= 0:
		return idx, idx == c.replay
	}
	mine = idx%c.e.NShards == c.e.Shard
	if mine && !c.NoMark {
		c.e.mark(c.st.Name, []Point{{Kind: "case", N: 1 << 30, Chosen: idx}})
	}
	return idx, mine
}

// Record accounts for one evaluated case. obs is its outcome class.
func (c *Cases) Record(idx int, obs string, steps int, sample func() string) {
	c.mu.Lock()
	defer c.mu.Unlock()
	c.st.Execs++
	c.st.Steps += steps
	c.st.Nodes++
	if _, ok := c.st.Outcomes[obs]; !ok && len(c.st.Sample) < 3 && sample != nil {
		c.st.Sample = append(c.st.Sample, sample()+" -> "+obs)
	}
	c.st.Outcomes[obs]++
	if c.replay >= 0 {
		fmt.Printf("REPLAY case %d: %s\n  property held on this case\n", idx, obs)
	}
}

// RecordBulk accounts for n evaluated cases of one outcome class at once.
func (c *Cases) RecordBulk(obs string, n int, sample string) {
	c.mu.Lock()
	defer c.mu.Unlock()
	c.st.Execs += n
	c.st.Steps += n
	c.st.Nodes += n
	if n > 0 {
		if _, ok := c.st.Outcomes[obs]; !ok && len(c.st.Sample) < 3 {
			c.st.Sample = append(c.st.Sample, sample+" -> "+obs)
		}
		c.st.Outcomes[obs] += n
	}
}

// Violate reports a violating case.
func (c *Cases) Violate(idx int, sig, msg string, steps int) {
	c.mu.Lock()
	defer c.mu.Unlock()
	c.st.Execs++
	c.st.Steps += steps
	c.st.Nodes++
	c.st.Outcomes["VIOLATION: "+sig]++
	if c.replay >= 0 {
		fmt.Printf("REPLAY case %d\n  VIOLATES: %s\n", idx, msg)
	}
	if c.e.Known[sig] {
		if !c.known[sig] {
			c.known[sig] = true
			c.res.Violations = append(c.res.Violations, &Violation{Scenario: c.st.Name, Msg: msg, Sig: sig, Known: true})
		}
		return
	}
	c.st.Complete = c.st.Complete && false
	if c.unknown[sig] || len(c.unknown) >= 5 {
		return
	}
	c.unknown[sig] = true
	v := &Violation{Scenario: c.st.Name, Msg: msg, Sig: sig, Choices: []Point{{Kind: "case", N: 1 << 30, Chosen: idx}}, Log: []string{msg}}
	if c.replay >= 0 {
		v.Replay = c.e.Replay
	} else {
		v.Replay = writeReplay(c.e.Property, v)
	}
	c.res.Violations = append(c.res.Violations, v)
}

// Incomplete marks the enumeration as capped.
func (c *Cases) Incomplete(why string) {
	c.mu.Lock()
	c.st.Complete, c.st.CapHit = false, why
	c.mu.Unlock()
}

func (c *Cases) Total() int { return c.next }
