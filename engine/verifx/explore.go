// Package verifx is the explorer core shared by every check: a choice-tree DFS
// with one deviation budget, process sharding, known-finding handling, replay
// files and evidence accounting.  It is added to the SDK module as the virtual
// package internal/verifx by a build overlay; /repo itself is never touched.
package verifx

import (
	"crypto/sha1"
	"encoding/hex"
	"encoding/json"
	"fmt"
	"os"
	"path/filepath"
	"sort"
	"strings"
	"sync"
	"syscall"
	"time"
)

// Point is one recorded decision of an execution.
type Point struct {
	Kind   string `json:"k"`
	N      int    `json:"n"`
	Cost   int    `json:"c"` // cost of any non-default alternative at this point
	Chosen int    `json:"x"`
}

// Chooser records and replays the decisions of one execution.
type Chooser struct {
	mu     sync.Mutex
	Prefix []Point
	Trace  []Point
}

// Divergence is the panic value raised when a replayed prefix does not fit the
// execution (a harness defect, never a property violation).
type Divergence struct{ Msg string }

func (d Divergence) Error() string { return "divergent replay: " + d.Msg }

// Choose returns the decision for the next choice point: the recorded one while
// replaying the prefix, else the default 0.
func (c *Chooser) Choose(kind string, n, cost int) int {
	if n <= 0 {
		panic("verifx: Choose with n<=0")
	}
	c.mu.Lock()
	defer c.mu.Unlock()
	i := len(c.Trace)
	x := 0
	if i < len(c.Prefix) {
		p := c.Prefix[i]
		if p.Kind != kind || p.N != n || p.Chosen >= n {
			panic(Divergence{fmt.Sprintf("point %d: recorded %s/%d choice %d, now %s/%d", i, p.Kind, p.N, p.Chosen, kind, n)})
		}
		x = p.Chosen
	}
	c.Trace = append(c.Trace, Point{Kind: kind, N: n, Cost: cost, Chosen: x})
	return x
}

// Free is a zero-cost choice (operation / input menus: full product).
func (c *Chooser) Free(kind string, n int) int { return c.Choose(kind, n, 0) }

// Fault is a cost-1 environment deviation; 0 is the healthy answer.
func (c *Chooser) Fault(kind string, n int) int { return c.Choose(kind, n, 1) }

// Outcome is what one execution reports to the explorer.
type Outcome struct {
	Trace      []Point
	Steps      int      // transitions executed (scheduling steps, operations)
	Obs        string   // canonical observation, used to count distinct outcomes
	Log        []string // detail for replay files
	Bad        string   // violation message, "" when the property held
	Sig        string   // violation signature (the specific input/history that fails)
	HarnessErr string   // harness defect (stall, divergence); never a violation
	States     []string // optional abstract state keys visited (explicit-state searches)
}

// Scenario is one closed system to explore.
type Scenario struct {
	Name   string
	Budget int // deviation budget B
	// Exec runs one execution for the given prefix.
	Exec func(prefix []Point) *Outcome
	// MaxExecs caps the number of executions of this scenario per shard (0 = none).
	MaxExecs int
	// NonTrivial, when set, decides whether an outcome's observation counts as
	// non-trivial; default: every distinct observation counts.
	NonTrivial func(o *Outcome) bool
}

type Violation struct {
	Scenario string   `json:"scenario"`
	Msg      string   `json:"msg"`
	Sig      string   `json:"sig"`
	Choices  []Point  `json:"choices"`
	Log      []string `json:"log"`
	Known    bool     `json:"known"`
	Replay   string   `json:"replay,omitempty"`
}

// ScenarioStats is the per-scenario coverage record.
type ScenarioStats struct {
	Name          string         `json:"name"`
	Budget        int            `json:"budget"`
	Execs         int            `json:"execs"`
	Steps         int            `json:"steps"`
	Nodes         int            `json:"choice_nodes"` // choice-tree nodes (states of the stateless search)
	MaxTrace      int            `json:"max_trace"`
	Outcomes      map[string]int `json:"outcomes"`
	NonTrivial    int            `json:"nontrivial_outcomes"`
	Deviations    map[string]int `json:"deviations_by_kind"`
	AbstractState map[string]int `json:"-"`
	Complete      bool           `json:"complete"`
	CapHit        string         `json:"cap_hit,omitempty"`
	Sample        []string       `json:"sample,omitempty"`
	nontrivialSet map[string]bool
}

// Result is what one shard writes for the driver to merge.
type Result struct {
	Property   string           `json:"property"`
	Tier       string           `json:"tier"`
	Shard      int              `json:"shard"`
	NShards    int              `json:"nshards"`
	Scenarios  []*ScenarioStats `json:"scenarios"`
	Violations []*Violation     `json:"violations"`
	HarnessErr []string         `json:"harness_errors"`
	WallS      float64          `json:"wall_s"`
	Extra      map[string]any   `json:"extra,omitempty"`
}

// Env is the per-process configuration, read from the environment.
type Env struct {
	Property string
	Tier     string // quick | thorough
	Shard    int
	NShards  int
	Out      string // result file
	Replay   string // replay file to re-run (single execution)
	Known    map[string]bool
	Deadline time.Time
	Seed     int64
	start    time.Time
	cur      *os.File
	// two-phase distribution: phase 1 (FrontierOut) expands each scenario's choice tree breadth-first
	// until enough subtree roots exist and writes them out; phase 2 workers (FrontierIn) take every
	// N-th root and explore below it.
	FrontierOut string
	FrontierIn  string
	frontier    map[string][][]Point
}

// mark records (in a side file that survives a process crash) which execution is
// about to run, so that the driver can turn a crash of the code under test into
// a replayable violation.
func (e *Env) mark(scenario string, choices []Point) {
	if e.Out == "" {
		return
	}
	if e.cur == nil {
		f, err := os.Create(e.Out + ".current")
		if err != nil {
			return
		}
		e.cur = f
	}
	data, _ := json.Marshal(map[string]any{"property": e.Property, "scenario": scenario, "choices": choices, "msg": "process crashed while running this execution", "sig": "process-crash"})
	e.cur.WriteAt(data, 0)
	e.cur.Truncate(int64(len(data)))
}

func atoi(s string, d int) int {
	if s == "" {
		return d
	}
	var n int
	fmt.Sscanf(s, "%d", &n)
	return n
}

// LoadEnv reads VERIF_* variables.
func LoadEnv(property string) *Env {
	e := &Env{Property: property, Tier: os.Getenv("VERIF_TIER"), start: time.Now()}
	if e.Tier == "" {
		e.Tier = "quick"
	}
	e.Shard = atoi(os.Getenv("VERIF_SHARD"), 0)
	e.NShards = atoi(os.Getenv("VERIF_NSHARDS"), 1)
	e.Out = os.Getenv("VERIF_OUT")
	e.Replay = os.Getenv("VERIF_REPLAY")
	e.Seed = int64(atoi(os.Getenv("VERIF_SEED"), 0))
	e.FrontierOut, e.FrontierIn = os.Getenv("VERIF_FRONTIER_OUT"), os.Getenv("VERIF_FRONTIER_IN")
	if e.FrontierIn != "" {
		if data, err := os.ReadFile(e.FrontierIn); err == nil {
			json.Unmarshal(data, &e.frontier)
		}
	}
	budget := atoi(os.Getenv("VERIF_TIME_S"), 0)
	if budget > 0 {
		e.Deadline = e.start.Add(time.Duration(budget) * time.Second)
	}
	e.Known = map[string]bool{}
	if f := os.Getenv("VERIF_KNOWN"); f != "" {
		if data, err := os.ReadFile(f); err == nil {
			for _, line := range strings.Split(string(data), "\n") {
				line = strings.TrimSpace(line)
				if !strings.HasPrefix(line, "known:") {
					continue
				}
				// known: property=C02 sig=<sig> :: description
				rest := strings.TrimSpace(strings.TrimPrefix(line, "known:"))
				if !strings.HasPrefix(rest, "property="+property+" ") {
					continue
				}
				rest = strings.TrimPrefix(rest, "property="+property+" ")
				if i := strings.Index(rest, " :: "); i >= 0 {
					rest = rest[:i]
				}
				rest = strings.TrimSpace(strings.TrimPrefix(rest, "sig="))
				e.Known[rest] = true
			}
		}
	}
	return e
}

func (e *Env) Quick() bool { return e.Tier != "thorough" }

// Pick returns q for the quick tier and t for thorough.
func (e *Env) Pick(q, t int) int {
	if e.Quick() {
		return q
	}
	return t
}

// Run explores every scenario (or replays one execution) and writes the shard result.
// It returns the result; the caller (a Test function) should not fail the test on
// violations: the driver turns them into VIOLATION lines and the exit code.
func (e *Env) Run(scs []*Scenario) *Result {
	res := e.NewResult()
	e.RunScenarios(res, scs)
	return e.Finish(res)
}

// NewResult starts a shard result; use RunScenarios / RunSearch / AddCases, then Finish.
func (e *Env) NewResult() *Result {
	return &Result{Property: e.Property, Tier: e.Tier, Shard: e.Shard, NShards: e.NShards, Extra: map[string]any{}}
}

func (e *Env) RunScenarios(res *Result, scs []*Scenario) {
	if e.Replay != "" {
		e.replay(scs, res)
		return
	}
	only := os.Getenv("VERIF_ONLY_SCENARIO") // debugging aid: run only the scenarios whose name contains this
	for _, sc := range scs {
		if only != "" && !strings.Contains(sc.Name, only) {
			continue
		}
		e.explore(sc, res)
	}
}

// Finish writes the shard result for the driver.
func (e *Env) Finish(res *Result) *Result {
	res.WallS = time.Since(e.start).Seconds()
	if e.FrontierOut != "" {
		data, _ := json.Marshal(e.frontier)
		os.WriteFile(e.FrontierOut, data, 0o644)
	}
	if e.Out != "" {
		data, _ := json.Marshal(res)
		if err := os.WriteFile(e.Out, data, 0o644); err != nil {
			panic(err)
		}
	}
	return res
}

func choicesOf(tr []Point) []int {
	out := make([]int, len(tr))
	for i, p := range tr {
		out[i] = p.Chosen
	}
	return out
}

func (e *Env) safeExec(sc *Scenario, prefix []Point) (o *Outcome) {
	e.mark(sc.Name, prefix)
	defer func() {
		if p := recover(); p != nil {
			if d, ok := p.(Divergence); ok {
				o = &Outcome{HarnessErr: d.Error()}
				return
			}
			o = &Outcome{HarnessErr: fmt.Sprintf("harness panic outside execution: %v", p)}
		}
	}()
	return sc.Exec(prefix)
}

func sameRun(a, b *Outcome) bool {
	if a.Obs != b.Obs || a.Bad != b.Bad || len(a.Trace) != len(b.Trace) {
		return false
	}
	for i := range a.Trace {
		if a.Trace[i] != b.Trace[i] {
			return false
		}
	}
	return true
}

func (e *Env) explore(sc *Scenario, res *Result) {
	st := &ScenarioStats{Name: sc.Name, Budget: sc.Budget, Outcomes: map[string]int{}, Deviations: map[string]int{},
		AbstractState: map[string]int{}, Complete: true, nontrivialSet: map[string]bool{}}
	res.Scenarios = append(res.Scenarios, st)
	shardDepth := 1
	if e.FrontierOut != "" || e.FrontierIn != "" {
		shardDepth = 1 << 30 // no in-process sharding: the frontier is the unit of distribution
	}
	var distCounter int
	stop := false
	unknownSigs := map[string]bool{}
	knownSeen := map[string]bool{}
	var queue [][]Point

	var rec func(prefix []Point, depth int, mine bool)
	rec = func(prefix []Point, depth int, mine bool) {
		if stop {
			return
		}
		if !e.Deadline.IsZero() && time.Now().After(e.Deadline) {
			st.Complete, st.CapHit, stop = false, "time", true
			return
		}
		if sc.MaxExecs > 0 && st.Execs >= sc.MaxExecs {
			st.Complete, st.CapHit, stop = false, "max_execs", true
			return
		}
		o := e.safeExec(sc, prefix)
		if o.HarnessErr != "" {
			res.HarnessErr = append(res.HarnessErr, fmt.Sprintf("%s %v: %s", sc.Name, choicesOf(prefix), o.HarnessErr))
			st.Complete = false
			if len(res.HarnessErr) > 5 {
				stop = true
			}
			return
		}
		// shared levels are executed by every shard but accounted for by shard 0 only
		count := mine && (depth >= shardDepth || e.Shard == 0 || e.FrontierIn != "")
		if depth == 0 {
			// determinism guard on the root execution
			for k := 0; k < 2; k++ {
				o2 := e.safeExec(sc, prefix)
				if o2.HarnessErr != "" || !sameRun(o, o2) {
					res.HarnessErr = append(res.HarnessErr, fmt.Sprintf("%s: root execution is not deterministic: %q vs %q (%s)", sc.Name, o.Obs, o2.Obs, o2.HarnessErr))
					st.Complete, stop = false, true
					return
				}
			}
		}
		if count {
			st.Execs++
			st.Steps += o.Steps
			st.Nodes += len(o.Trace) - len(prefix) + 1
			if len(o.Trace) > st.MaxTrace {
				st.MaxTrace = len(o.Trace)
			}
			key := o.Obs
			if o.Bad != "" {
				key = "VIOLATION: " + o.Sig
			}
			if _, seen := st.Outcomes[key]; !seen && len(st.Sample) < 3 {
				st.Sample = append(st.Sample, fmt.Sprintf("choices=%v -> %s", compact(o.Trace), key))
			}
			st.Outcomes[key]++
			if sc.NonTrivial == nil || sc.NonTrivial(o) {
				st.nontrivialSet[key] = true
			}
			for _, p := range o.Trace {
				if p.Chosen != 0 && p.Cost > 0 {
					st.Deviations[p.Kind]++
				}
			}
			for _, s := range o.States {
				st.AbstractState[s]++
			}
		}
		if o.Bad != "" && mine {
			sig := o.Sig
			if sig == "" {
				sig = o.Bad
			}
			known := e.Known[sig]
			if known {
				if !knownSeen[sig] {
					knownSeen[sig] = true
					res.Violations = append(res.Violations, &Violation{Scenario: sc.Name, Msg: o.Bad, Sig: sig, Choices: o.Trace, Log: o.Log, Known: true})
				}
			} else if !unknownSigs[sig] {
				// confirm reproducibility before believing it
				ok := true
				for k := 0; k < 2; k++ {
					o2 := e.safeExec(sc, o.Trace)
					if o2.HarnessErr != "" || o2.Bad == "" || o2.Sig != o.Sig {
						ok = false
						res.HarnessErr = append(res.HarnessErr, fmt.Sprintf("%s: violation %q does not reproduce on replay (%s / %q)", sc.Name, o.Bad, o2.HarnessErr, o2.Bad))
					}
				}
				if ok {
					unknownSigs[sig] = true
					v := &Violation{Scenario: sc.Name, Msg: o.Bad, Sig: sig, Choices: o.Trace, Log: o.Log}
					v.Replay = writeReplay(e.Property, v)
					res.Violations = append(res.Violations, v)
				}
				st.Complete = false
				if len(unknownSigs) >= atoi(os.Getenv("VERIF_MAX_UNKNOWN"), 3) {
					stop = true
				}
			}
			// a violating execution's subtree is not expanded further - unless the violation is a known
			// finding: the alternatives below it (other answers at its later choice points) are different
			// executions that a known finding must not hide
			if !known {
				return
			}
		}
		cost := 0
		for i := 0; i < len(prefix) && i < len(o.Trace); i++ {
			if o.Trace[i].Chosen != 0 {
				cost += o.Trace[i].Cost
			}
		}
		for i := len(prefix); i < len(o.Trace); i++ {
			p := o.Trace[i]
			if p.N <= 1 || cost+p.Cost > sc.Budget {
				continue
			}
			for alt := 1; alt < p.N; alt++ {
				np := make([]Point, i+1)
				copy(np, o.Trace[:i])
				np[i] = Point{Kind: p.Kind, N: p.N, Cost: p.Cost, Chosen: alt}
				childMine := mine
				if depth+1 == shardDepth {
					childMine = distCounter%e.NShards == e.Shard
					distCounter++
				}
				if depth+1 >= shardDepth && !childMine {
					continue
				}
				if e.FrontierOut != "" {
					queue = append(queue, np)
					continue
				}
				rec(np, depth+1, childMine)
				if stop {
					return
				}
			}
		}
	}
	switch {
	case e.FrontierOut != "":
		// phase 1: breadth-first until there are enough subtree roots to balance the workers
		target := 48 * max(e.NShards, 1)
		queue = append(queue, nil)
		first := true
		expansions := 0
		minExp := atoi(os.Getenv("VERIF_FRONTIER_MINEXP"), 64)
		for len(queue) > 0 && (first || len(queue) < target || expansions < minExp) && !stop {
			expansions++
			// expand the node with the earliest last decision first: it roots the largest subtree
			best := 0
			for i := range queue {
				if len(queue[i]) < len(queue[best]) {
					best = i
				}
			}
			p := queue[best]
			queue = append(queue[:best:best], queue[best+1:]...)
			d := 1
			if first {
				d = 0 // determinism guard on the root
			}
			first = false
			rec(p, d, true)
		}
		if e.frontier == nil {
			e.frontier = map[string][][]Point{}
		}
		sort.SliceStable(queue, func(a, b int) bool { return len(queue[a]) < len(queue[b]) })
		e.frontier[sc.Name] = queue
	case e.FrontierIn != "":
		// workers pull subtree roots from a shared counter (dynamic balancing); roots are ordered
		// big-first (an earlier last decision point means a larger subtree)
		roots := e.frontier[sc.Name]
		for {
			i := nextIndex(e.FrontierIn + "." + sanitize(sc.Name) + ".ctr")
			if i >= len(roots) || stop {
				break
			}
			rec(roots[i], 1, true)
		}
	default:
		rec(nil, 0, true)
	}
	st.NonTrivial = len(st.nontrivialSet)
}

func sanitize(s string) string {
	return strings.Map(func(r rune) rune {
		if r >= 'a' && r <= 'z' || r >= 'A' && r <= 'Z' || r >= '0' && r <= '9' {
			return r
		}
		return '_'
	}, s)
}

// nextIndex atomically returns and increments a counter shared between worker processes.
func nextIndex(path string) int {
	f, err := os.OpenFile(path, os.O_RDWR|os.O_CREATE, 0o644)
	if err != nil {
		panic(err)
	}
	defer f.Close()
	if err := syscall.Flock(int(f.Fd()), syscall.LOCK_EX); err != nil {
		panic(err)
	}
	defer syscall.Flock(int(f.Fd()), syscall.LOCK_UN)
	var n int
	buf := make([]byte, 32)
	k, _ := f.ReadAt(buf, 0)
	fmt.Sscanf(string(buf[:k]), "%d", &n)
	f.WriteAt([]byte(fmt.Sprintf("%-20d", n+1)), 0)
	return n
}

func compact(tr []Point) string {
	var b strings.Builder
	for i, p := range tr {
		if p.Chosen != 0 {
			fmt.Fprintf(&b, "%d:%s=%d ", i, p.Kind, p.Chosen)
		}
	}
	return fmt.Sprintf("[%s] len=%d", strings.TrimSpace(b.String()), len(tr))
}

// ReplayDir is where violation replays are written.
var ReplayDir = "/verif/replays"

func writeReplay(property string, v *Violation) string {
	if d := os.Getenv("VERIF_REPLAY_DIR"); d != "" {
		ReplayDir = d
	}
	os.MkdirAll(ReplayDir, 0o755)
	h := sha1.Sum([]byte(v.Scenario + "|" + v.Sig + "|" + fmt.Sprint(choicesOf(v.Choices))))
	path := filepath.Join(ReplayDir, property+"-"+hex.EncodeToString(h[:6])+".json")
	data, _ := json.MarshalIndent(map[string]any{
		"property": property, "scenario": v.Scenario, "msg": v.Msg, "sig": v.Sig, "choices": v.Choices, "log": v.Log,
	}, "", " ")
	os.WriteFile(path, data, 0o644)
	return path
}

func (e *Env) replay(scs []*Scenario, res *Result) {
	data, err := os.ReadFile(e.Replay)
	if err != nil {
		res.HarnessErr = append(res.HarnessErr, err.Error())
		return
	}
	var r struct {
		Scenario string
		Choices  []Point
	}
	if err := json.Unmarshal(data, &r); err != nil {
		res.HarnessErr = append(res.HarnessErr, err.Error())
		return
	}
	for _, sc := range scs {
		if sc.Name != r.Scenario {
			continue
		}
		o := e.safeExec(sc, r.Choices)
		fmt.Printf("REPLAY scenario=%s choices=%v\n", sc.Name, choicesOf(o.Trace))
		for _, l := range o.Log {
			fmt.Println("  | " + l)
		}
		fmt.Printf("  obs: %s\n", o.Obs)
		if o.HarnessErr != "" {
			res.HarnessErr = append(res.HarnessErr, o.HarnessErr)
		}
		if o.Bad != "" {
			fmt.Printf("  VIOLATES: %s\n", o.Bad)
			res.Violations = append(res.Violations, &Violation{Scenario: sc.Name, Msg: o.Bad, Sig: o.Sig, Choices: o.Trace, Log: o.Log, Known: e.Known[o.Sig], Replay: e.Replay})
		} else {
			fmt.Printf("  property held on this execution\n")
		}
		st := &ScenarioStats{Name: sc.Name, Execs: 1, Steps: o.Steps, Outcomes: map[string]int{o.Obs: 1}, Complete: true}
		res.Scenarios = append(res.Scenarios, st)
		return
	}
}

// SortedKeys is a small helper for canonical observations.
func SortedKeys[V any](m map[string]V) []string {
	ks := make([]string, 0, len(m))
	for k := range m {
		ks = append(ks, k)
	}
	sort.Strings(ks)
	return ks
}
