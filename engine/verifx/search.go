package verifx

import (
	"encoding/json"
	"fmt"
	"os"
	"runtime"
	"sync"
	"time"
)

// Search is an explicit-state breadth-first search over operation histories of
// a real object.  A state is the history that reaches it: successors are
// computed by replaying the history on a fresh instance plus one operation
// (live objects are not cloned).  Up to ShallowDepth every history is expanded
// (no deduplication, so a wrong abstraction cannot hide anything there); beyond
// it histories whose canonical state key was already seen are not expanded.
type Search struct {
	Name         string
	NumOps       int
	OpName       func(op int) string
	MaxDepth     int
	ShallowDepth int
	// Run replays hist on a fresh instance, checking the oracle after every
	// operation, and returns the canonical key of the final state.
	Run     func(hist []int) SearchResult
	Workers int
	MaxRuns int // cap (0 = none)
}

type SearchResult struct {
	Key  string // canonical abstract state after the history
	Obs  string // observation class (distinct outcome counting)
	Bad  string
	Sig  string
	Skip bool // the last operation is not enabled in this state
}

func (e *Env) RunSearch(res *Result, s *Search) {
	st := &ScenarioStats{Name: s.Name, Budget: s.MaxDepth, Outcomes: map[string]int{}, Deviations: map[string]int{}, Complete: true}
	res.Scenarios = append(res.Scenarios, st)
	if s.Workers == 0 {
		s.Workers = runtime.GOMAXPROCS(0)
	}
	if e.Replay != "" {
		data, err := os.ReadFile(e.Replay)
		if err != nil {
			res.HarnessErr = append(res.HarnessErr, err.Error())
			return
		}
		var r struct {
			Scenario string
			Choices  []Point
		}
		if json.Unmarshal(data, &r) != nil || r.Scenario != s.Name {
			return
		}
		h := choicesOf(r.Choices)
		out := s.Run(h)
		fmt.Printf("REPLAY scenario=%s history=", s.Name)
		for _, op := range h {
			fmt.Printf("%s ; ", s.OpName(op))
		}
		fmt.Printf("\n  obs: %s\n", out.Obs)
		st.Execs, st.Steps = 1, len(h)
		st.Outcomes[out.Obs] = 1
		if out.Bad != "" {
			fmt.Printf("  VIOLATES: %s\n", out.Bad)
			res.Violations = append(res.Violations, &Violation{Scenario: s.Name, Msg: out.Bad, Sig: out.Sig, Known: e.Known[out.Sig], Replay: e.Replay})
		} else {
			fmt.Printf("  property held on this history\n")
		}
		return
	}
	seen := map[string]bool{}
	var mu sync.Mutex
	frontier := [][]int{{}}
	transitions := 0
	unknown := map[string]bool{}
	known := map[string]bool{}
	histName := func(h []int) string {
		out := ""
		for i, op := range h {
			if i > 0 {
				out += " ; "
			}
			out += s.OpName(op)
		}
		return out
	}
	for depth := 1; depth <= s.MaxDepth && len(frontier) > 0; depth++ {
		var next [][]int
		var wg sync.WaitGroup
		jobs := make(chan []int, 1024)
		stop := false
		for w := 0; w < s.Workers; w++ {
			wg.Add(1)
			go func() {
				defer wg.Done()
				for h := range jobs {
					for op := 0; op < s.NumOps; op++ {
						nh := make([]int, len(h)+1)
						copy(nh, h)
						nh[len(h)] = op
						if s.Workers == 1 {
							var pts []Point
							for _, o := range nh {
								pts = append(pts, Point{Kind: "op", N: s.NumOps, Chosen: o})
							}
							e.mark(s.Name, pts)
						}
						r := s.Run(nh)
						if r.Skip {
							continue
						}
						mu.Lock()
						st.Execs++
						st.Steps += len(nh)
						transitions++
						if _, ok := st.Outcomes[r.Obs]; !ok && len(st.Sample) < 3 {
							st.Sample = append(st.Sample, histName(nh)+" -> "+r.Obs)
						}
						st.Outcomes[r.Obs]++
						if r.Bad != "" {
							sig := r.Sig
							if sig == "" {
								sig = r.Bad
							}
							if e.Known[sig] {
								if !known[sig] {
									known[sig] = true
									res.Violations = append(res.Violations, &Violation{Scenario: s.Name, Msg: r.Bad + " [history: " + histName(nh) + "]", Sig: sig, Known: true})
								}
							} else if !unknown[sig] {
								unknown[sig] = true
								v := &Violation{Scenario: s.Name, Msg: r.Bad + " [history: " + histName(nh) + "]", Sig: sig, Log: []string{histName(nh)}}
								for _, op := range nh {
									v.Choices = append(v.Choices, Point{Kind: "op", N: s.NumOps, Chosen: op})
								}
								v.Replay = writeReplay(e.Property, v)
								res.Violations = append(res.Violations, v)
								st.Complete = false
							}
							mu.Unlock()
							continue // do not expand violating states
						}
						fresh := !seen[r.Key]
						seen[r.Key] = true
						if fresh || depth <= s.ShallowDepth {
							next = append(next, nh)
						}
						mu.Unlock()
					}
				}
			}()
		}
		for _, h := range frontier {
			if (!e.Deadline.IsZero() && time.Now().After(e.Deadline)) || (s.MaxRuns > 0 && st.Execs >= s.MaxRuns) {
				stop = true
				break
			}
			jobs <- h
		}
		close(jobs)
		wg.Wait()
		if stop {
			st.Complete = false
			st.CapHit = fmt.Sprintf("cap reached at depth %d (depth %d completed)", depth, depth-1)
			break
		}
		if len(unknown) >= 3 {
			break
		}
		frontier = next
		st.MaxTrace = depth
	}
	st.Nodes = len(seen)
	st.NonTrivial = len(st.Outcomes)
}

// ReplayHistory extracts the operation list of a replay file for a Search scenario.
func ReplayHistory(choices []Point) []int { return choicesOf(choices) }
