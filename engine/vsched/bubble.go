package vsched

import (
	"fmt"
	"os"
	"runtime"
	"sort"
	"strconv"
	"strings"
	gosync "sync"
	"testing"
	"testing/synctest"

	"github.com/modelcontextprotocol/go-sdk/internal/verifx"
)

// Verdict is what a harness body reports about one execution.
type Verdict struct {
	Obs string // canonical observation
	Bad string // violation message ("" = fine)
	Sig string // violation signature
}

// Exec runs one controlled execution of main in a fresh synctest bubble.
// bubblePanic is the recovered bubble-exit panic (blocked goroutines remain);
// schedPanic is a panic of the scheduler itself (divergent replay, harness bug).
func Exec(t *testing.T, prefix []verifx.Point, opt Options, main func()) (res *Result, bubblePanic string, schedPanic any) {
	defer func() {
		if res == nil {
			res = &Result{}
		}
		if p := recover(); p != nil {
			bubblePanic = fmt.Sprint(p)
			buf := make([]byte, 1<<16)
			res.Stacks = string(buf[:runtime.Stack(buf, true)])
		}
	}()
	synctest.Test(t, func(t *testing.T) {
		defer func() {
			// a panic in the bubble's root goroutine (the scheduler) would kill the process
			if p := recover(); p != nil {
				schedPanic = p
				cur.Store(nil)
			}
		}()
		res = Run(prefix, opt, synctest.Wait, main)
	})
	return
}

// E1 wraps a harness body into an explorer scenario.  The generic liveness
// oracles are applied here: a panic anywhere, a deadlock (threads unfinished
// with nothing enabled and no timer before the horizon) and leaked threads are
// violations unless the body's own verdict is already bad.
func E1(t *testing.T, name string, budget int, opt Options, body func() Verdict) *verifx.Scenario {
	if n, _ := strconv.Atoi(os.Getenv("VERIF_FREERUN")); n > 0 {
		// the race-detector pass: n free-running executions of the same body, verdicts not evaluated
		var cached *verifx.Outcome // the explorer may execute a scenario's only choice list more than once (replay checks)
		return &verifx.Scenario{Name: name, Budget: 0, Exec: func(prefix []verifx.Point) *verifx.Outcome {
			if cached != nil {
				return cached
			}
			if opt.NoFreeRun != "" {
				cached = &verifx.Outcome{Steps: 0, Obs: "not run free: " + opt.NoFreeRun}
				return cached
			}
			ends := map[string]int{}
			abandoned, ran := 0, n
			for i := 0; i < n; i++ {
				var v Verdict
				e := RunFree(t, int64(i), func() { v = body() })
				ends[e]++
				if os.Getenv("VERIF_DEBUG") != "" {
					fmt.Fprintf(os.Stderr, "free run %s #%d: ended %q obs %q bad %q\n", name, i, e, v.Obs, v.Bad)
				}
				if strings.HasPrefix(e, "abandoned") {
					abandoned++
					if abandoned >= 3 {
						// each abandoned run costs the watchdog's 20 s of real time; a scenario that keeps
						// stalling free-running is reported as such instead of eating the check's time
						ran = i + 1
						break
					}
				}
			}
			var log []string
			for k, c := range ends {
				if k != "" {
					log = append(log, fmt.Sprintf("%d free runs ended with: %s", c, k))
				}
			}
			sort.Strings(log)
			obs := "free-running"
			if abandoned > 0 {
				obs = fmt.Sprintf("free-running; %d of %d runs abandoned (stalled on a mutex inside the bubble)", abandoned, ran)
			}
			cached = &verifx.Outcome{Steps: ran, Obs: obs, Log: log}
			return cached
		}}
	}
	return &verifx.Scenario{Name: name, Budget: budget, Exec: func(prefix []verifx.Point) *verifx.Outcome {
		var v Verdict
		finished := false
		res, bp, sp := Exec(t, prefix, opt, func() {
			v = body()
			finished = true
		})
		if sp != nil {
			if d, ok := sp.(verifx.Divergence); ok {
				return &verifx.Outcome{HarnessErr: d.Error()}
			}
			return &verifx.Outcome{HarnessErr: fmt.Sprintf("scheduler panic: %v", sp)}
		}
		o := &verifx.Outcome{Trace: res.Trace, Steps: res.Steps, Log: res.Log, Obs: v.Obs, Bad: v.Bad, Sig: v.Sig}
		for _, p := range res.Panics {
			if strings.HasPrefix(p, "DIVERGENCE: ") {
				o.HarnessErr = p
				return o
			}
		}
		switch {
		case len(res.Panics) > 0:
			first := res.Panics[0]
			line := first
			if i := strings.IndexByte(line, '\n'); i >= 0 {
				line = line[:i]
			}
			if j := strings.Index(line, "): "); j >= 0 {
				line = line[j+3:]
			}
			o.Bad = "panic: " + first
			o.Sig = "panic: " + line
		case o.Bad != "":
		case !finished:
			o.Bad = "deadlock: the harness could not finish: " + res.Deadlock + " blocked=" + strings.Join(res.Blocked, "; ")
			o.Sig = "deadlock"
			o.Log = append(o.Log, res.Stacks)
		case len(res.Blocked) > 0 || res.Deadlock != "":
			o.Bad = "leak: threads still blocked after the harness finished: " + strings.Join(res.Blocked, "; ") + " " + res.Deadlock
			o.Sig = "leak"
			o.Log = append(o.Log, res.Stacks)
		case bp != "":
			o.Bad = "leak: bubble exit: " + bp
			o.Sig = "leak: bubble exit"
			o.Log = append(o.Log, res.Stacks)
		}
		return o
	}}
}

// Gate is a handler duration under harness control: a handler parks on it and a
// controller opens it.
type Gate struct {
	ch      chan struct{}
	Waiting bool
	opened  bool
	name    string
	ctl     *Controller
}

var gateMu gosync.Mutex // Gate flags are read by controllers running in other goroutines

func (g *Gate) announce() {
	gateMu.Lock()
	g.Waiting = true
	gateMu.Unlock()
	if g.ctl != nil {
		select {
		case g.ctl.wake <- struct{}{}:
		default:
		}
	}
}

func NewGate() *Gate { return &Gate{ch: make(chan struct{})} }

// Wait parks until the gate is opened.
func (g *Gate) Wait() {
	Point()
	g.announce()
	<-g.ch
}

// WaitOr parks until the gate is opened or done is closed; reports whether the gate opened.
func (g *Gate) WaitOr(done <-chan struct{}) bool {
	Point()
	g.announce()
	select {
	case <-g.ch:
		return true
	case <-done:
		return false
	}
}

func (g *Gate) Open() {
	gateMu.Lock()
	was := g.opened
	g.opened = true
	gateMu.Unlock()
	if !was {
		Point()
		close(g.ch)
	}
}

func (g *Gate) Opened() bool {
	gateMu.Lock()
	defer gateMu.Unlock()
	return g.opened
}

func (g *Gate) waitingClosed() bool {
	gateMu.Lock()
	defer gateMu.Unlock()
	return g.Waiting && !g.opened
}

// Controller opens gates on behalf of a harness: whenever a handler parks on a
// gate the controller waits until nothing else can run (idle priority) and then
// opens one of the waiting gates, chosen by a free choice - so every completion
// order of gated handlers is enumerated without drawing on the deviation budget.
type Controller struct {
	gates []*Gate
	wake  chan struct{}
	quit  chan struct{}
}

func NewController() *Controller {
	c := &Controller{wake: make(chan struct{}, 64), quit: make(chan struct{})}
	GoDaemon(c.loop)
	return c
}

// Gate returns a new gate managed by the controller.
func (c *Controller) Gate(name string) *Gate {
	g := NewGate()
	g.name = name
	g.ctl = c
	c.gates = append(c.gates, g)
	return g
}

func (c *Controller) loop() {
	for {
		Point()
		select {
		case <-c.wake:
		case <-c.quit:
			return
		}
		WaitIdle()
		var waiting []*Gate
		for _, g := range c.gates {
			if g.waitingClosed() {
				waiting = append(waiting, g)
			}
		}
		if len(waiting) == 0 {
			continue
		}
		k := 0
		if len(waiting) > 1 {
			k = Choose("gate-order", len(waiting), 0)
		}
		waiting[k].Open()
	}
}

// Stop opens every gate and ends the controller.
func (c *Controller) Stop() {
	for _, g := range c.gates {
		g.Open()
	}
	Point()
	close(c.quit)
}
