// Package vsched is a cooperative scheduler for instrumented SDK code, meant to
// run inside a testing/synctest bubble.  The instrumenter (engine/instr)
// rewrites `sync` imports to this package, inserts Point() before channel
// operations, turns `go` statements into Go(...) and multi-case `select`
// statements into Select(...).  With no active scheduler everything is
// pass-through (real sync primitives, real goroutines), so the same binary
// also runs free (e.g. under -race).
package vsched

import (
	"bytes"
	"fmt"
	"os"
	"reflect"
	"runtime"
	"sort"
	"strconv"
	"strings"
	gosync "sync"
	"sync/atomic"
	"time"

	"github.com/modelcontextprotocol/go-sdk/internal/verifx"
)

type (
	Map       = gosync.Map
	Pool      = gosync.Pool
	WaitGroup = gosync.WaitGroup // native: Wait is durably blocking inside a bubble
	Locker    = gosync.Locker
)

var cur atomic.Pointer[Sched]

// Active reports whether a scheduler is installed.
func Active() bool { return cur.Load() != nil }

type opKind int

const (
	opNone opKind = iota
	opLock
	opRLock
	opIdle
)

type Thread struct {
	id     int
	baton  chan struct{}
	parked bool
	done   bool
	op     opKind
	mu     *Mutex
	rw     *RWMutex
	label  string
	daemon bool
	where  string
}

type timerRec struct {
	when  time.Time
	fired bool
}

type Sched struct {
	mu      gosync.Mutex
	threads []*Thread
	byGoid  map[int64]*Thread
	arrived chan struct{}
	running *Thread
	queue   []*Thread
	front   bool // queue policy: new threads join at the front

	ch     *verifx.Chooser
	steps  int
	log    []string
	panics []string
	ctr    map[string]int

	timers   map[*Timer]*timerRec
	advances int
	noTime   bool

	ptrSeq       map[any]int
	unorderedPtr int

	quiet  bool // no schedule/select deviations are offered (set-up phases)
	events []string
}

func goid() int64 {
	var buf [64]byte
	b := buf[:runtime.Stack(buf[:], false)]
	b = bytes.TrimPrefix(b, []byte("goroutine "))
	i := bytes.IndexByte(b, ' ')
	n, _ := strconv.ParseInt(string(b[:i]), 10, 64)
	return n
}

func callerLabel(skip int) string {
	_, file, line, ok := runtime.Caller(skip)
	if !ok {
		return "?"
	}
	if i := strings.LastIndexByte(file, '/'); i >= 0 {
		file = file[i+1:]
	}
	return fmt.Sprintf("%s:%d", file, line)
}

func (s *Sched) self() *Thread {
	g := goid()
	s.mu.Lock()
	defer s.mu.Unlock()
	t := s.byGoid[g]
	if t == nil {
		// a goroutine started by uninstrumented code (errgroup, a native timer)
		t = &Thread{id: len(s.threads), baton: make(chan struct{}), label: "adopted"}
		s.threads = append(s.threads, t)
		s.byGoid[g] = t
	}
	return t
}

func (s *Sched) notify() {
	select {
	case s.arrived <- struct{}{}:
	default:
	}
}

var debugSteps = os.Getenv("VERIF_REPLAY") != "" && os.Getenv("VERIF_DEBUG") != ""

func (s *Sched) park(t *Thread, op opKind, m *Mutex, rw *RWMutex) {
	if debugSteps {
		t.where = callerLabel(3) + "<" + callerLabel(4)
	}
	s.mu.Lock()
	t.op, t.mu, t.rw = op, m, rw
	t.parked = true
	s.mu.Unlock()
	s.notify()
	<-t.baton
}

// Point is a scheduling point.
func Point() {
	s := cur.Load()
	if s == nil {
		return
	}
	s.park(s.self(), opNone, nil, nil)
}

// WaitIdle parks the calling thread until no other thread is enabled
// (idle priority: used by harness controllers that decide handler durations).
func WaitIdle() {
	s := cur.Load()
	if s == nil {
		if f := freeCur.Load(); f != nil {
			f.waitIdle()
			return
		}
		runtime.Gosched()
		return
	}
	s.park(s.self(), opIdle, nil, nil)
}

// Go starts a new controlled thread.
func Go(f func()) {
	s := cur.Load()
	if s == nil {
		if fr := freeCur.Load(); fr != nil {
			go fr.spawn(f)
			return
		}
		go f()
		return
	}
	s.spawn(callerLabel(2), false, f)
}

// GoDaemon starts a controlled thread whose being blocked at the end of an
// execution is not reported as a leak (scripted peers, controllers).
func GoDaemon(f func()) {
	s := cur.Load()
	if s == nil {
		if fr := freeCur.Load(); fr != nil {
			go fr.spawn(f)
			return
		}
		go f()
		return
	}
	s.spawn(callerLabel(2), true, f)
}

func (s *Sched) spawn(label string, daemon bool, f func()) {
	s.mu.Lock()
	t := &Thread{id: len(s.threads), baton: make(chan struct{}), label: label, daemon: daemon}
	s.threads = append(s.threads, t)
	s.mu.Unlock()
	go func() {
		g := goid()
		s.mu.Lock()
		s.byGoid[g] = t
		s.mu.Unlock()
		s.park(t, opNone, nil, nil)
		defer s.finish(t, g)
		f()
	}()
}

func (s *Sched) finish(t *Thread, g int64) {
	if p := recover(); p != nil {
		if d, ok := p.(verifx.Divergence); ok {
			s.mu.Lock()
			s.panics = append(s.panics, "DIVERGENCE: "+d.Msg)
			s.mu.Unlock()
		} else {
			buf := make([]byte, 4096)
			buf = buf[:runtime.Stack(buf, false)]
			s.mu.Lock()
			s.panics = append(s.panics, fmt.Sprintf("panic in thread %d (%s): %v\n%s", t.id, t.label, p, buf))
			s.mu.Unlock()
		}
	}
	s.mu.Lock()
	t.done = true
	delete(s.byGoid, g)
	s.mu.Unlock()
	s.notify()
}

// ---- timers owned by the scheduler

// Timer replaces *time.Timer in instrumented code.
type Timer struct {
	C <-chan time.Time
	t *time.Timer
	d time.Duration
}

func (s *Sched) regTimer(t *Timer, d time.Duration) {
	s.mu.Lock()
	s.timers[t] = &timerRec{when: time.Now().Add(d)}
	s.mu.Unlock()
}

func (s *Sched) unregTimer(t *Timer) {
	s.mu.Lock()
	delete(s.timers, t)
	s.mu.Unlock()
}

// AfterFunc replaces time.AfterFunc: the callback becomes a controlled thread and
// the deadline is known to the scheduler, which may let time pass to it while
// other threads are enabled (a cost-1 deviation).
func AfterFunc(d time.Duration, f func()) *Timer {
	s := cur.Load()
	tm := &Timer{d: d}
	if s == nil {
		tm.t = time.AfterFunc(d, f)
		return tm
	}
	label := callerLabel(2)
	tm.t = time.AfterFunc(d, func() {
		g := goid()
		s.mu.Lock()
		t := &Thread{id: len(s.threads), baton: make(chan struct{}), label: "timer@" + label}
		s.threads = append(s.threads, t)
		s.byGoid[g] = t
		delete(s.timers, tm)
		s.mu.Unlock()
		s.park(t, opNone, nil, nil)
		defer s.finish(t, g)
		f()
	})
	s.regTimer(tm, d)
	return tm
}

// NewTimer replaces time.NewTimer (channel timer; wake-up is native).
func NewTimer(d time.Duration) *Timer {
	t := time.NewTimer(d)
	return &Timer{C: t.C, t: t, d: d}
}

func (t *Timer) Stop() bool {
	if s := cur.Load(); s != nil {
		s.unregTimer(t)
	}
	return t.t.Stop()
}

func (t *Timer) Reset(d time.Duration) bool {
	r := t.t.Reset(d)
	if s := cur.Load(); s != nil && t.C == nil {
		s.regTimer(t, d)
	}
	return r
}

// ---- owned randomness

// RandText replaces crypto/rand.Text (session ids, stream ids).
func RandText() string {
	s := cur.Load()
	if s == nil {
		return "R" + strconv.FormatInt(time.Now().UnixNano(), 36) + strconv.FormatInt(int64(ctrFree.Add(1)), 36)
	}
	s.mu.Lock()
	defer s.mu.Unlock()
	s.ctr["text"]++
	return fmt.Sprintf("VSID%04d", s.ctr["text"])
}

var ctrFree atomic.Int64

// RandN replaces math/rand/v2.N (reconnect jitter): always the smallest value.
func RandN[T ~int | ~int64 | ~uint | ~uint64 | ~int32 | ~uint32](n T) T { return 0 }

// ---- sync shims

type Mutex struct {
	real gosync.Mutex
	held bool
}

func (m *Mutex) Lock() {
	s := cur.Load()
	if s == nil {
		m.real.Lock()
		return
	}
	s.park(s.self(), opLock, m, nil) // the scheduler sets held when it grants the lock
}

func (m *Mutex) Unlock() {
	s := cur.Load()
	if s == nil {
		m.real.Unlock()
		return
	}
	s.mu.Lock()
	if !m.held {
		s.mu.Unlock()
		panic("vsched: unlock of unlocked mutex")
	}
	m.held = false
	s.mu.Unlock()
}

func (m *Mutex) TryLock() bool {
	s := cur.Load()
	if s == nil {
		return m.real.TryLock()
	}
	Point()
	s.mu.Lock()
	defer s.mu.Unlock()
	if m.held {
		return false
	}
	m.held = true
	return true
}

type RWMutex struct {
	real    gosync.RWMutex
	writer  bool
	readers int
}

func (m *RWMutex) Lock() {
	s := cur.Load()
	if s == nil {
		m.real.Lock()
		return
	}
	s.park(s.self(), opLock, nil, m)
}

func (m *RWMutex) Unlock() {
	s := cur.Load()
	if s == nil {
		m.real.Unlock()
		return
	}
	s.mu.Lock()
	m.writer = false
	s.mu.Unlock()
}

func (m *RWMutex) RLock() {
	s := cur.Load()
	if s == nil {
		m.real.RLock()
		return
	}
	s.park(s.self(), opRLock, nil, m)
}

func (m *RWMutex) RUnlock() {
	s := cur.Load()
	if s == nil {
		m.real.RUnlock()
		return
	}
	s.mu.Lock()
	m.readers--
	s.mu.Unlock()
}

func (m *RWMutex) RLocker() gosync.Locker { return rlocker{m} }

type rlocker struct{ m *RWMutex }

func (r rlocker) Lock()   { r.m.RLock() }
func (r rlocker) Unlock() { r.m.RUnlock() }

type Once struct {
	m    Mutex
	done bool
}

func (o *Once) Do(f func()) {
	o.m.Lock()
	defer o.m.Unlock()
	if !o.done {
		defer func() { o.done = true }()
		f()
	}
}

// OnceFunc mirrors sync.OnceFunc.
func OnceFunc(f func()) func() {
	var o Once
	return func() { o.Do(f) }
}

// ---- select

type Case interface {
	sc() reflect.SelectCase
	set(reflect.Value, bool)
	// probe classifies the case without blocking: 0 not ready, 1 ready, 2 ready
	// and already consumed (the case must be taken).
	probe() int
}

type RecvCase[T any] struct {
	ch  <-chan T
	Val T
	OK  bool
}

func RecvOf[T any](ch <-chan T) *RecvCase[T] { return &RecvCase[T]{ch: ch} }

func (c *RecvCase[T]) sc() reflect.SelectCase {
	return reflect.SelectCase{Dir: reflect.SelectRecv, Chan: reflect.ValueOf(c.ch)}
}

func (c *RecvCase[T]) set(v reflect.Value, ok bool) {
	if ok {
		c.Val, _ = v.Interface().(T)
	}
	c.OK = ok
}

func (c *RecvCase[T]) probe() int {
	if c.ch == nil {
		return 0
	}
	if len(c.ch) > 0 {
		return 1
	}
	// empty: ready only if closed, or (unbuffered) if a sender is blocked, in
	// which case the probe consumes the value and the case must be taken.
	select {
	case v, ok := <-c.ch:
		if !ok {
			return 1
		}
		c.Val, c.OK = v, true
		return 2
	default:
		return 0
	}
}

type SendCase[T any] struct {
	ch chan<- T
	V  T
}

func SendOn[T any](ch chan<- T) *SendCase[T] { return &SendCase[T]{ch: ch} }

func (c *SendCase[T]) sc() reflect.SelectCase {
	v := reflect.ValueOf(&c.V).Elem()
	return reflect.SelectCase{Dir: reflect.SelectSend, Chan: reflect.ValueOf(c.ch), Send: v}
}

func (c *SendCase[T]) set(reflect.Value, bool) {}

func (c *SendCase[T]) probe() int {
	if c.ch == nil {
		return 0
	}
	if cap(c.ch) > 0 {
		if len(c.ch) < cap(c.ch) {
			return 1
		}
		return 0
	}
	// unbuffered: ready only if a receiver is blocked; trying it commits.
	select {
	case c.ch <- c.V:
		return 2
	default:
		return 0
	}
}

func try(c Case) bool {
	sc := c.sc()
	if !sc.Chan.IsValid() || sc.Chan.IsNil() {
		return false
	}
	i, v, ok := reflect.Select([]reflect.SelectCase{sc, {Dir: reflect.SelectDefault}})
	if i == 0 {
		c.set(v, ok)
		return true
	}
	return false
}

// Select implements a select statement; when several cases are ready the pick
// is a recorded (cost-0) choice instead of the runtime's random one.
func Select(hasDefault bool, cs ...Case) int {
	s := cur.Load()
	if s == nil {
		all := make([]reflect.SelectCase, 0, len(cs)+1)
		for _, c := range cs {
			all = append(all, c.sc())
		}
		if hasDefault {
			all = append(all, reflect.SelectCase{Dir: reflect.SelectDefault})
		}
		i, v, ok := reflect.Select(all)
		if i == len(cs) {
			return -1
		}
		cs[i].set(v, ok)
		return i
	}
	Point()
	var cand []int
	for i, c := range cs {
		switch c.probe() {
		case 1:
			cand = append(cand, i)
		case 2:
			return i
		}
	}
	start := 0
	if len(cand) > 1 && !s.quiet {
		start = s.ch.Choose("select", len(cand), 0)
	}
	for k := 0; k < len(cand); k++ {
		i := cand[(start+k)%len(cand)]
		if try(cs[i]) {
			return i
		}
	}
	if hasDefault {
		return -1
	}
	all := make([]reflect.SelectCase, len(cs))
	for i, c := range cs {
		all[i] = c.sc()
	}
	i, v, ok := reflect.Select(all) // blocks natively (durably, inside a bubble)
	cs[i].set(v, ok)
	return i
}

// Choose is a harness-visible choice (environment answers, operation menus).
// cost 0 = free (full product), 1 = a deviation drawing on the budget.
func Choose(kind string, n int, cost int) int {
	s := cur.Load()
	if s == nil {
		if f := freeCur.Load(); f != nil {
			return f.choose(n)
		}
		return 0
	}
	Point()
	return s.ch.Choose(kind, n, cost)
}

// Quiet switches schedule exploration off (true) or on (false): while quiet the
// default schedule is followed and no choice points are recorded.  Harnesses use
// it for set-up phases (handshakes) that are not the subject of a scenario.
func Quiet(q bool) {
	if s := cur.Load(); s != nil {
		Point()
		s.mu.Lock()
		s.quiet = q
		s.mu.Unlock()
	}
}

// Event appends to the execution's global event sequence and returns its index.
func Event(format string, a ...any) int {
	s := cur.Load()
	if s == nil {
		if f := freeCur.Load(); f != nil {
			f.mu.Lock()
			defer f.mu.Unlock()
			f.events = append(f.events, fmt.Sprintf(format, a...))
			return len(f.events) - 1
		}
		return -1
	}
	s.mu.Lock()
	defer s.mu.Unlock()
	s.events = append(s.events, fmt.Sprintf(format, a...))
	s.log = append(s.log, "ev: "+s.events[len(s.events)-1])
	return len(s.events) - 1
}

// Events returns a copy of the global event sequence.
func Events() []string {
	s := cur.Load()
	if s == nil {
		if f := freeCur.Load(); f != nil {
			f.mu.Lock()
			defer f.mu.Unlock()
			return append([]string{}, f.events...)
		}
		return nil
	}
	s.mu.Lock()
	defer s.mu.Unlock()
	return append([]string{}, s.events...)
}

// Logf appends to the execution's observation log.
func Logf(format string, a ...any) {
	s := cur.Load()
	if s == nil {
		return
	}
	s.mu.Lock()
	s.log = append(s.log, fmt.Sprintf(format, a...))
	s.mu.Unlock()
}

// Now returns the virtual time elapsed since the scheduler started.
func Since(t0 time.Time) time.Duration { return time.Since(t0) }

// ---- the scheduler proper

type Result struct {
	Trace    []verifx.Point
	Steps    int
	Log      []string
	Deadlock string   // non-empty: no thread enabled, no timer before the horizon, threads unfinished
	Blocked  []string // unfinished non-daemon threads at the end
	Panics   []string
	Advances int
	Stacks   string
}

type Options struct {
	Horizon  time.Duration // virtual-time horizon (sentinel)
	Front    bool          // second queue policy: new threads join at the front
	NoTime   bool          // do not offer time-advance deviations
	MaxSteps int           // livelock guard
	// NoFreeRun (a reason) excludes the scenario from the free-running race-detector pass: inside a
	// bubble, virtual time cannot advance while a goroutine waits for a sync.Mutex, so scenarios
	// that stall an operation while it holds one never finish without the controlled scheduler.
	NoFreeRun string
}

// Run executes main under the scheduler.  It must be called from the root
// goroutine of a synctest bubble; wait is synctest.Wait.
func Run(prefix []verifx.Point, opt Options, wait func(), main func()) *Result {
	if opt.Horizon == 0 {
		opt.Horizon = time.Hour
	}
	if opt.MaxSteps == 0 {
		opt.MaxSteps = 200000
	}
	s := &Sched{byGoid: map[int64]*Thread{}, arrived: make(chan struct{}, 1), ch: &verifx.Chooser{Prefix: prefix},
		ctr: map[string]int{}, timers: map[*Timer]*timerRec{}, front: opt.Front, noTime: opt.NoTime}
	cur.Store(s)
	defer cur.Store(nil)
	res := &Result{}
	s.spawn("main", false, main)
	sentinel := time.NewTimer(opt.Horizon)
	defer sentinel.Stop()
	horizonHit := false
loop:
	for {
		wait()
		s.mu.Lock()
		var enabled, idlers []*Thread
		alldone := true
		for _, t := range s.threads {
			if !t.done {
				alldone = false
			}
			if !t.parked || t.done {
				continue
			}
			switch t.op {
			case opIdle:
				idlers = append(idlers, t)
				continue
			case opLock:
				if t.mu != nil && t.mu.held {
					continue
				}
				if t.rw != nil && (t.rw.writer || t.rw.readers > 0) {
					continue
				}
			case opRLock:
				if t.rw.writer {
					continue
				}
			}
			enabled = append(enabled, t)
		}
		npanics := len(s.panics)
		s.mu.Unlock()
		if alldone || npanics > 0 {
			break
		}
		if s.steps > opt.MaxSteps {
			res.Deadlock = "livelock: step cap reached"
			break
		}
		if len(enabled) == 0 && len(idlers) > 0 {
			// several idle-priority threads: which one goes first is a free choice
			k := 0
			if len(idlers) > 1 {
				k = s.ch.Choose("idle-order", len(idlers), 0)
			}
			enabled = idlers[k : k+1]
		}
		if len(enabled) == 0 {
			if horizonHit {
				res.Deadlock = s.describe()
				break
			}
			// nothing can run: let virtual time pass to the next timer
			select {
			case <-s.arrived:
			case <-sentinel.C:
				horizonHit = true
			}
			continue
		}
		// canonical order: the running thread first if enabled, then queue order.
		s.mu.Lock()
		inq := map[*Thread]bool{}
		for _, t := range s.queue {
			inq[t] = true
		}
		var fresh []*Thread
		for _, t := range s.threads {
			if !inq[t] {
				fresh = append(fresh, t)
			}
		}
		if s.front {
			s.queue = append(fresh, s.queue...)
		} else {
			s.queue = append(s.queue, fresh...)
		}
		en := map[*Thread]bool{}
		for _, t := range enabled {
			en[t] = true
		}
		enabled = enabled[:0]
		if s.running != nil && en[s.running] {
			enabled = append(enabled, s.running)
		}
		for _, t := range s.queue {
			if en[t] && t != s.running {
				enabled = append(enabled, t)
			}
		}
		// earliest scheduler-owned timer, offered as one more alternative
		var next *timerRec
		if !s.noTime {
			for _, tr := range s.timers {
				if next == nil || tr.when.Before(next.when) {
					next = tr
				}
			}
		}
		s.mu.Unlock()
		n := len(enabled)
		if next != nil {
			n++
		}
		k := 0
		if n > 1 && !s.quiet {
			k = s.ch.Choose("sched", n, 1)
		}
		if k == len(enabled) {
			// time deviation: let the clock reach the next owned timer although threads are enabled
			s.advances++
			if d := time.Until(next.when); d > 0 {
				time.Sleep(d)
			} else {
				time.Sleep(time.Nanosecond)
			}
			continue loop
		}
		if k > 0 {
			// the skipped threads go to the back of the queue (delay semantics)
			skipped := map[*Thread]bool{}
			for _, t := range enabled[:k] {
				skipped[t] = true
			}
			var q, back []*Thread
			for _, t := range s.queue {
				if skipped[t] {
					back = append(back, t)
				} else {
					q = append(q, t)
				}
			}
			s.queue = append(q, back...)
		}
		t := enabled[k]
		s.mu.Lock()
		t.parked = false
		switch t.op {
		case opLock:
			if t.mu != nil {
				t.mu.held = true
			} else {
				t.rw.writer = true
			}
		case opRLock:
			t.rw.readers++
		}
		s.running = t
		s.steps++
		if debugSteps {
			s.log = append(s.log, fmt.Sprintf("step %d: thread %d (%s) op=%d where=%s", s.steps, t.id, t.label, t.op, t.where))
		}
		s.mu.Unlock()
		select { // drain a stale arrival notification
		case <-s.arrived:
		default:
		}
		t.baton <- struct{}{}
	}
	s.mu.Lock()
	for _, t := range s.threads {
		if !t.done {
			kind := ""
			if t.daemon {
				kind = " [harness daemon]"
			}
			res.Blocked = append(res.Blocked, fmt.Sprintf("thread %d (%s)%s parked=%v op=%d", t.id, t.label, kind, t.parked, t.op))
		}
	}
	res.Panics = s.panics
	res.Log = s.log
	s.mu.Unlock()
	if res.Deadlock != "" {
		buf := make([]byte, 1<<16)
		buf = buf[:runtime.Stack(buf, true)]
		res.Stacks = string(buf)
	}
	res.Trace, res.Steps, res.Advances = s.ch.Trace, s.steps, s.advances
	return res
}

func (s *Sched) describe() string {
	s.mu.Lock()
	defer s.mu.Unlock()
	var parts []string
	for _, t := range s.threads {
		if !t.done {
			parts = append(parts, fmt.Sprintf("[thread %d %s parked=%v op=%d daemon=%v]", t.id, t.label, t.parked, t.op, t.daemon))
		}
	}
	sort.Strings(parts)
	return strings.Join(parts, " ")
}
