package vsched

import (
	"fmt"
	"iter"
	"reflect"
	"sort"
)

// Map iteration order is nondeterminism the explorer must own: instrumented
// `for k, v := range m` loops iterate in the canonical key order defined here.

// Reg gives a freshly allocated object a creation sequence number, so that
// pointer-keyed maps have a canonical order.  The instrumenter wraps `&T{...}`
// for every T that is used as a pointer map key.
func Reg[T any](p *T) *T {
	if s := cur.Load(); s != nil {
		s.mu.Lock()
		if s.ptrSeq == nil {
			s.ptrSeq = map[any]int{}
		}
		s.ptrSeq[p] = len(s.ptrSeq) + 1
		s.mu.Unlock()
	}
	return p
}

func (s *Sched) seqOf(p any) (int, bool) {
	if s == nil {
		return 0, false
	}
	s.mu.Lock()
	defer s.mu.Unlock()
	n, ok := s.ptrSeq[p]
	return n, ok
}

func canon(s *Sched, v reflect.Value) string {
	switch v.Kind() {
	case reflect.String:
		return "s:" + v.String()
	case reflect.Int, reflect.Int8, reflect.Int16, reflect.Int32, reflect.Int64:
		return fmt.Sprintf("i:%021d", v.Int()+1<<62)
	case reflect.Uint, reflect.Uint8, reflect.Uint16, reflect.Uint32, reflect.Uint64, reflect.Uintptr:
		return fmt.Sprintf("u:%021d", v.Uint())
	case reflect.Bool:
		return fmt.Sprintf("b:%v", v.Bool())
	case reflect.Float32, reflect.Float64:
		return fmt.Sprintf("f:%v", v.Float())
	case reflect.Interface:
		if v.IsNil() {
			return "nil"
		}
		return v.Elem().Type().String() + "/" + canon(s, v.Elem())
	case reflect.Pointer:
		if v.IsNil() {
			return "p:nil"
		}
		if v.CanInterface() {
			if n, ok := s.seqOf(v.Interface()); ok {
				return fmt.Sprintf("p:%09d", n)
			}
		}
		if s != nil {
			s.mu.Lock()
			s.unorderedPtr++
			s.mu.Unlock()
		}
		return fmt.Sprintf("p:?%x", v.Pointer())
	case reflect.Struct:
		out := "{"
		for i := 0; i < v.NumField(); i++ {
			out += canon(s, v.Field(i)) + ","
		}
		return out + "}"
	case reflect.Array:
		out := "["
		for i := 0; i < v.Len(); i++ {
			out += canon(s, v.Index(i)) + ","
		}
		return out + "]"
	}
	return fmt.Sprintf("?%v", v.Kind())
}

// SortedKeys returns the keys of m in canonical order.
func SortedKeys[M ~map[K]V, K comparable, V any](m M) []K {
	keys := make([]K, 0, len(m))
	for k := range m {
		keys = append(keys, k)
	}
	if len(keys) < 2 {
		return keys
	}
	s := cur.Load()
	if s == nil {
		return keys
	}
	cs := make([]string, len(keys))
	for i, k := range keys {
		cs[i] = canon(s, reflect.ValueOf(&k).Elem())
	}
	idx := make([]int, len(keys))
	for i := range idx {
		idx[i] = i
	}
	sort.Slice(idx, func(a, b int) bool { return cs[idx[a]] < cs[idx[b]] })
	out := make([]K, len(keys))
	for i, j := range idx {
		out[i] = keys[j]
	}
	return out
}

// MapKeys, MapValues and MapAll replace maps.Keys, maps.Values and maps.All.
func MapKeys[M ~map[K]V, K comparable, V any](m M) iter.Seq[K] {
	return func(yield func(K) bool) {
		for _, k := range SortedKeys(m) {
			if _, ok := m[k]; ok && !yield(k) {
				return
			}
		}
	}
}

func MapValues[M ~map[K]V, K comparable, V any](m M) iter.Seq[V] {
	return func(yield func(V) bool) {
		for _, k := range SortedKeys(m) {
			if v, ok := m[k]; ok && !yield(v) {
				return
			}
		}
	}
}

func MapAll[M ~map[K]V, K comparable, V any](m M) iter.Seq2[K, V] {
	return func(yield func(K, V) bool) {
		for _, k := range SortedKeys(m) {
			if v, ok := m[k]; ok && !yield(k, v) {
				return
			}
		}
	}
}
