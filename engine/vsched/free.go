package vsched

// Free-running mode: the same harness bodies, uninstrumented SDK code, real goroutines and the Go
// scheduler, inside a synctest bubble (virtual time, idle detection).  It exists for the separate
// race-detector pass: the cooperative scheduler's hand-offs are happens-before edges that blind
// the detector, so unsynchronised accesses between scheduling points are looked for here, with
// the binary built with -race.  Nothing is decided by this mode except "no data race reported in
// SDK code"; harness verdicts are not evaluated (harness-side bookkeeping is not written for
// free-running execution).

import (
	"fmt"
	"math/rand"
	gosync "sync"
	"sync/atomic"
	"testing"
	"testing/synctest"
	"time"
)

type freeRun struct {
	mu     gosync.Mutex
	events []string
	rng    *rand.Rand
	sem    chan struct{} // serialises synctest.Wait callers (a channel made in the bubble: waiting on it is durable)
	panics []string
}

var freeCur atomic.Pointer[freeRun]

func (f *freeRun) waitIdle() {
	f.sem <- struct{}{}
	synctest.Wait()
	<-f.sem
	// polling loops around WaitIdle must let virtual time pass, or threads whose start was delayed
	// by spawn would never run
	time.Sleep(5 * time.Nanosecond)
}

func (f *freeRun) choose(n int) int {
	f.mu.Lock()
	defer f.mu.Unlock()
	if n <= 1 {
		return 0
	}
	return f.rng.Intn(n)
}

// spawn runs a harness thread.  Half of them first sleep a few virtual nanoseconds: inside the
// bubble such a goroutine resumes only once every other goroutine is durably blocked, which
// yields orders ("this thread ran last") that plain free running practically never produces.
func (f *freeRun) spawn(fn func()) {
	f.mu.Lock()
	delay := 0
	if f.rng.Intn(2) == 0 {
		delay = 1 + f.rng.Intn(3)
	}
	f.mu.Unlock()
	if delay > 0 {
		time.Sleep(time.Duration(delay))
	}
	f.guard(fn)
}

func (f *freeRun) guard(fn func()) {
	defer func() {
		if p := recover(); p != nil {
			f.mu.Lock()
			f.panics = append(f.panics, fmt.Sprint(p))
			f.mu.Unlock()
		}
	}()
	fn()
}

// RunFree runs main once, free-running, in a fresh bubble; seed drives the harness-visible choices.
// It returns a description of how the run ended ("" = main returned and the bubble emptied).
// A bubble's virtual clock only advances when every goroutine is durably blocked, so a run in
// which a goroutine waits for a sync.Mutex held across a stalled operation while another waits
// for time never ends: after freeRunWatchdog of real time such a run is abandoned (its goroutines
// stay parked) and reported as such.
func RunFree(t *testing.T, seed int64, main func()) (ended string) {
	done := make(chan string, 1)
	go func() {
		ended := ""
		defer func() {
			if p := recover(); p != nil {
				ended = fmt.Sprint(p)
			}
			done <- ended
		}()
		synctest.Test(t, func(t *testing.T) {
			f := &freeRun{rng: rand.New(rand.NewSource(seed)), sem: make(chan struct{}, 1)}
			freeCur.Store(f)
			f.guard(main)
			f.mu.Lock()
			if len(f.panics) > 0 {
				ended = "panic: " + f.panics[0]
			}
			f.mu.Unlock()
		})
	}()
	select {
	case ended = <-done:
	case <-time.After(freeRunWatchdog):
		ended = "abandoned: no progress possible (a goroutine waits for a mutex while the bubble waits for time)"
	}
	freeCur.Store(nil)
	return ended
}

const freeRunWatchdog = 20 * time.Second
