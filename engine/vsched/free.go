package vsched

// Free-running mode: the same harness bodies, uninstrumented SDK code, real goroutines and the Go
// scheduler, inside a synctest bubble (virtual time, idle detection).  It exists for the separate
// race-detector pass: the cooperative scheduler's hand-offs are happens-before edges that blind
// the detector, so unsynchronised accesses between scheduling points are looked for here, with
// the binary built with -race.  Nothing is decided by this mode except "no data race reported in
// SDK code"; harness verdicts are not evaluated (harness-side bookkeeping is not written for
// free-running execution).

import (
	"fmt"
	"math/rand"
	gosync "sync"
	"sync/atomic"
	"testing"
	"testing/synctest"
)

type freeRun struct {
	mu     gosync.Mutex
	events []string
	rng    *rand.Rand
	sem    chan struct{} // serialises synctest.Wait callers (a channel made in the bubble: waiting on it is durable)
	panics []string
}

var freeCur atomic.Pointer[freeRun]

func (f *freeRun) waitIdle() {
	f.sem <- struct{}{}
	synctest.Wait()
	<-f.sem
}

func (f *freeRun) choose(n int) int {
	f.mu.Lock()
	defer f.mu.Unlock()
	if n <= 1 {
		return 0
	}
	return f.rng.Intn(n)
}

func (f *freeRun) guard(fn func()) {
	defer func() {
		if p := recover(); p != nil {
			f.mu.Lock()
			f.panics = append(f.panics, fmt.Sprint(p))
			f.mu.Unlock()
		}
	}()
	fn()
}

// RunFree runs main once, free-running, in a fresh bubble; seed drives the harness-visible choices.
// It returns a description of how the run ended ("" = main returned and the bubble emptied).
func RunFree(t *testing.T, seed int64, main func()) (ended string) {
	defer func() {
		freeCur.Store(nil)
		if p := recover(); p != nil {
			ended = fmt.Sprint(p)
		}
	}()
	synctest.Test(t, func(t *testing.T) {
		f := &freeRun{rng: rand.New(rand.NewSource(seed)), sem: make(chan struct{}, 1)}
		freeCur.Store(f)
		f.guard(main)
		f.mu.Lock()
		if len(f.panics) > 0 {
			ended = "panic: " + f.panics[0]
		}
		f.mu.Unlock()
	})
	return ended
}
